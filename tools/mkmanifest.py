#!/usr/bin/env python3
"""Regenerate MANIFEST.json from the per-property table below.
A property whose monitor module (rv/props/cNN.py) does not exist yet is listed
under not_applicable with the reason 'monitors not built yet'."""
import json
import os

HERE = os.path.dirname(os.path.dirname(os.path.abspath(__file__)))

P = {
 'C01': dict(tech='icontract postconditions on speriodogram/CORRELOGRAMPSD + paired class-vs-function traces, oracle numpy.fft',
             text='Every call of speriodogram / Periodogram / CORRELOGRAMPSD made by the workload (and internally) is compared bin by bin with |FFT(x*w)|^2/N computed by the monitor; Parseval and Wiener-Khinchin are checked on the same executions. Exploration: held on the executions observed (all 29 windows, N 1..40 exhaustive and sampled beyond, even/odd/prime/2^m NFFT, real/complex/integer/constant/large-dynamic-range data, 1-D and 2-D).',
             note='numpy.fft is the reference; window samples are taken from create_window (judged by C20) but applied by the oracle.'),
 'C02': dict(tech='paired-execution trace monitor over the 12 estimator classes; oracle = index arithmetic on (k, NFFT, fs)',
             text='For every estimator object built by the workload the monitor reads psd, frequencies(), NFFT, sides and checks type, finiteness, length, axis values and where the peak of an on-grid tone lands. Exploration over classes x real/complex x N parity x NFFT kinds x fs x tone bins x orders.',
             note='peak tolerances per estimator as stated in the property; tones at 60 dB SNR so the maximum is unique.'),
 'C03': dict(tech='paired-execution trace monitor (x vs c*x) over functions and classes; oracle = the scaling relation',
             text='Each group runs the real estimator on x and on c*x and compares PSD/variance ratios with |c|^2 and model parameters / weights / subspace decisions for equality. Exploration over estimators x c in [1e-3,1e3] (complex c for complex data) x data classes x orders.',
             note='c that changes the data type is excluded; criterion-selected orders compared only outside a rounding margin.'),
 'C04': dict(tech='paired-execution trace monitor (modulated, conjugated, complexified, time-reversed inputs); oracle = roll / mirror / 2x-half relations',
             text='Relations between two executions of the same estimator class are checked on every group the workload produces; a sys.monitoring probe checks Hermitian symmetry of the minvar psi sequence.',
             note='modulation restricted to the NFFT grid as the statement says; time reversal only for the seven listed estimators.'),
 'C05': dict(tech='paired-execution trace monitor (NFFT vs c*NFFT); oracle = strided sub-sampling, parameter equality',
             text='Every estimator class is run at NFFT and c*NFFT (c in 2,3,5) and the values at common frequencies, including DC and Nyquist, plus all model parameters are compared.',
             note='adaptive multitaper compared at 1e-3 because its stop rule depends on NFFT by construction.'),
 'C06': dict(tech='history monitor: exhaustive conversion paths on live Spectrum objects vs a pure-numpy layout model (clauses a-e judged separately)',
             text='All basis vectors x real/complex x NFFT parities x all paths of length <=4 over the three layouts are applied to live Spectrum objects and to the tools helpers; each clause of the property is judged against an executable model of the layouts.',
             note='open finding F08 (private Nyquist-last layout) is absorbed only when a frozen characterisation of the current behaviour still matches exactly.'),
 'C07': dict(tech='history monitor: operation sequences on live estimator objects vs a freshly constructed object (reference model = the history-free path of the real code)',
             text='Exhaustive histories up to length 2 (quick) / 3 (thorough) and random longer ones over setters/calls/reads for every class; after every read the object is compared with a fresh object holding the same attribute values; abstract states and transitions visited are reported.',
             note='the reference uses the class itself on the history-free path and replays the sides assignments since the last computation.'),
 'C08': dict(tech='icontract postcondition on arma2psd (explicit polynomial sums) + paired traces (scale on/off, two sampling rates) over the classes',
             text='arma2psd is judged on every call against direct evaluation of (rho/T)|B|^2/|A|^2; every class is run with scale_by_freq on/off and at two sampling rates and the stated ratios are checked.',
             note='open finding F15 (MultiTapering ignores scale_by_freq) absorbed by structure.'),
 'C09': dict(tech='icontract postconditions on CORRELATION / xcorr / corrmtx (fire on internal call sites too); oracle = explicit lag sums, eigvalsh',
             text='Every call of the three functions during the workload is compared with the definition computed by the monitor from the arguments; Gram identity and agreement of the two back ends are checked as paired relations.',
             note='numpy dot products / eigvalsh are the reference; coeff normalisation judged for autocorrelation only.'),
 'C10': dict(tech='icontract postconditions on LEVINSON / HERMTOEP / TOEPLITZ / CHOLESKY; oracle = explicit Toeplitz products, numpy.roots, eigvalsh',
             text='Every solver call is checked against the equations it is meant to solve (residual, error product formula, reflection bounds, stability, nesting, rejection of indefinite input).',
             note='systems are generated with controlled conditioning; guards discard ill-conditioned ones and are counted.'),
 'C11': dict(tech='icontract postconditions on the converters + round-trip/commutation relations; oracle = own step-up/step-down and closed forms',
             text='All ordered pairs of representations are converted on generated admissible parameter sets (orders 1..16, |k|<=0.98, real and complex) and compared with the monitor\'s own recursions.',
             note='LSF/LAR/IS are real-only.'),
 'C12': dict(tech='icontract postconditions on aryule / lpc; oracle = own biased autocorrelation, lstsq on own data matrix, numpy.roots',
             text='Every aryule/lpc call (including the internal ones of ma()) is judged for stability, reflection bounds, positive variance, the Yule-Walker equations on an independently computed autocorrelation and agreement with least squares.',
             note='singular autocorrelations (P/r0<1e-12) discarded by guard; LS comparison guarded by cond<=1e8.'),
 'C13': dict(tech='icontract postcondition on arburg + sys.monitoring frame probe on its recursion (den vs direct sum); oracle = own lattice filter',
             text='Every arburg call is judged: |k|<=1, a = step-up(k), rho product formula and monotonicity, nesting across orders, stage optimality of each k_i against the monitor\'s own lattice, criteria result equals a plain Burg model of the selected order.',
             note='inputs that drive rho<=0 legitimately raise and are discarded; open finding F18 (AICc/AKICc zero denominator).'),
 'C14': dict(tech='icontract postconditions on arcovar / modcovar / *_marple; oracle = own data matrices, normal equations, lstsq',
             text='Every call is checked for orthogonality of the residual to the regressors, minimality of the returned error, exact recovery of noiseless exponentials, and agreement of the Marple recursions with least squares.',
             note='exact-recovery clause guarded by cond<=1e6.'),
 'C15': dict(tech='icontract postconditions on ma / arma_estimate + class-level trace checks; oracle = own unbiased lags, lstsq, numpy.roots, explicit polynomial sums',
             text='Lengths, invertibility, positive variance, the modified Yule-Walker least-squares clause for P=Q, and PSD = (rho/fs)|B|^2/|A|^2 of the exposed coefficients for every AR/MA/ARMA class.',
             note='LS clause needs lag-Q>=P and lag<N; cond guard 1e8.'),
 'C16': dict(tech='icontract postcondition on minvar + class trace; oracle = step-up -> Toeplitz R -> numpy.linalg.inv quadratic form',
             text='Every minvar call is compared with fs/(e^H R^-1 e) with R rebuilt by the monitor from the returned reflection coefficients; positivity, realness and the returned Burg vectors are checked.',
             note='cond(R) guard 1e10.'),
 'C17': dict(tech='icontract postcondition on eigen + class trace; oracle = own forward-backward matrix and numpy.linalg.svd, peak search',
             text='Noiseless exponentials on the grid: peaks within one bin, positivity, singular values equal to those of the oracle-built data matrix with exactly K non-negligible, argument validation.',
             note='singular-value clause evaluated for N-P<=100 (the code caps the rows at 100).'),
 'C18': dict(tech='icontract postcondition on dpss (sinc kernel, eigh_tridiagonal) + ASan/UBSan build of mydpss.c loaded in-process (LD_PRELOAD) and stand-alone, valgrind memcheck, differential vs plain build',
             text='Behavioural clauses on every dpss call; memory lane: the same workload plus hostile (N,k,NW) triples run through clang ASan+UBSan builds of the C file and (thorough) valgrind memcheck; any report, or any numeric difference between instrumented and plain builds, is a violation.',
             note='a clean sanitizer run means no report on these calls, not memory safety; NW crosses ctypes as c_float (tol 1e-5).'),
 'C19': dict(tech='icontract postcondition on pmtm + frame probe on the adaptive loop + class trace; oracle = numpy.fft, Thomson formula',
             text='Eigenspectra, eigenvalues, weights per method (adaptive weights judged at the iterate they were computed from, read by the probe), class PSD = mean of weighted eigenspectra (folded for real data), real and non-negative; precomputed tapers give the same result.',
             note='dpss tapers are taken from the library (judged by C18).'),
 'C20': dict(tech='icontract postconditions on create_window / enbw / Window + closed-form oracles (scipy.signal.windows, scipy.special, written-out formulas)',
             text='All 29 names x N exhaustive (1..128 quick, 1..512 thorough) and sampled to 16384 x parameter grids: length, finiteness, symmetry, max<=1, centre=1, ENBW>=1, closed forms, aliases, parameter forwarding/rejection, Window object.',
             note='flattop periodic judged against its own definition; chebwin centre clause only where scipy\'s window peaks at the centre.'),
}

SEC = {k: '§6 %s' % k for k in P}


def main():
    checks = []
    na = []
    for pid in sorted(P):
        mod = os.path.join(HERE, 'rv', 'props', pid.lower() + '.py')
        if not os.path.isfile(mod):
            na.append({'property_id': pid, 'reason': 'monitors not built yet in this round (planned: %s)' % P[pid]['tech']})
            continue
        checks.append({
            'property_id': pid,
            'quick_cmd': './check %s quick' % pid,
            'thorough_cmd': './check %s thorough' % pid,
            'evidence_file': '/verif/evidence/%s.json' % pid,
            'replay_cmd_template': './check %s --replay {path}' % pid,
            'engine': 'rv',
            'level_claimed': {'category': 'exploration', 'text': P[pid]['text'] +
                              ' Verdict is "held on the executions observed", never "verified".',
                              'design_ref': SEC[pid]},
            'level_note': P[pid]['note'],
            'technique': 'runtime monitoring: ' + P[pid]['tech'],
        })
    m = {
        'version': 1,
        'setup_cmd': '/venv/bin/pip install --quiet --no-index --find-links /opt/veriftools/wheels --target /verif/.deps icontract deal',
        'hooks': {
            'guard': 'SPECTRUM_VERIF',
            'enable': 'no source hook: monitors attach from outside (icontract wrappers patched into every spectrum.* namespace, sys.monitoring probes located by source text, fresh gcc/clang builds of src/cpp/mydpss.c rebound to spectrum.mtm.mtspeclib); the checks export SPECTRUM_VERIF=1 but the repository does not read it',
            'baseline_off_cmd': 'cd /repo && env -u SPECTRUM_VERIF /venv/bin/python -m pytest -ra -q -p no:cacheprovider --timeout=900 --continue-on-collection-errors',
            'source_commits': [],
            'add_only': True,
        },
        'engines': [
            {'name': 'rv', 'path': '/verif/rv', 'serves_properties': sorted(P),
             'kind_free_text': 'runtime monitors: icontract contracts on the real callables, paired-execution trace checkers, history monitor with executable reference model, sys.monitoring reach/frame probes, ASan/UBSan/valgrind lanes for mydpss.c'},
        ],
        'checks': checks,
        'not_applicable': na,
        'notes': 'All checks run /repo\'s working tree with /venv/bin/python (SPECTRUM_SRC overrides the tree for self-tests); the C helper is rebuilt from src/cpp/mydpss.c on every run that touches it. Every workload runs in supervised child processes (quick: 1, thorough: 16 shards + the repository tests under the property\'s contracts), so a crash of the native code is reported as a VIOLATION with the case that was running. Exit 0 held / 1 violated (VIOLATION lines, replay files under /verif/replays) / 2 inconclusive (a deciding monitor was never reached, a lane timed out). Open findings are listed in /verif/known_findings.json and printed as KNOWN-FINDING lines; each has a witness case in the quick tier. Seeded changes and which check catches them: /verif/seeded and DESIGN.md section 12.5.',
    }
    with open(os.path.join(HERE, 'MANIFEST.json'), 'w') as f:
        json.dump(m, f, indent=1)
        f.write('\n')
    print('checks: %d, not_applicable: %d' % (len(checks), len(na)))


if __name__ == '__main__':
    main()
