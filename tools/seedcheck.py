#!/usr/bin/env python3
"""Seeded-change bookkeeping.

  seedcheck.py import <dir-with-mN-subdirs> <PROP>   copy sub-agent deliverables into /verif/seeded/<PROP>-mN/
  seedcheck.py verify [ids...]    confirm each seeded change in a scratch worktree: patch applies, the 165
                                  repository tests still pass, the demo fails with it and passes without it
  seedcheck.py run [ids...]       apply each patch to /repo (git apply), run the owning property's quick check
                                  (plus any extra properties listed in meta.json 'also'), undo (git checkout -- .),
                                  and record which check caught it in seeded/RESULTS.json
Nothing is ever committed in /repo; scratch worktrees live under /tmp and are removed.
"""
import json
import os
import shutil
import subprocess
import sys

VERIF = os.path.dirname(os.path.dirname(os.path.abspath(__file__)))
SEEDED = os.path.join(VERIF, 'seeded')
REPO = '/repo'
PY = '/venv/bin/python'
SO = 'src/spectrum/mydpss.cpython-312-x86_64-linux-gnu.so'


def sh(cmd, cwd=None, env=None, timeout=1800):
    r = subprocess.run(cmd, cwd=cwd, env=env, stdout=subprocess.PIPE, stderr=subprocess.STDOUT, timeout=timeout)
    return r.returncode, r.stdout.decode(errors='replace')


def ids(args):
    all_ids = sorted(d for d in os.listdir(SEEDED) if os.path.isdir(os.path.join(SEEDED, d)))
    return [a for a in all_ids if not args or a in args or a.split('-')[0] in args]


def do_import(src, prop, tag=''):
    for m in sorted(os.listdir(src)):
        d = os.path.join(src, m)
        if not os.path.isfile(os.path.join(d, 'patch.diff')):
            continue
        dst = os.path.join(SEEDED, '%s-%s%s' % (prop, tag, m))
        os.makedirs(dst, exist_ok=True)
        for f in ('patch.diff', 'demo.py', 'meta.json'):
            if os.path.isfile(os.path.join(d, f)):
                shutil.copy(os.path.join(d, f), os.path.join(dst, f))
        print('imported', dst)


def scratch():
    wt = '/tmp/seedverify_%d' % os.getpid()
    sh(['git', '-C', REPO, 'worktree', 'remove', '--force', wt])
    rc, out = sh(['git', '-C', REPO, 'worktree', 'add', '--detach', wt, 'HEAD'])
    if rc:
        raise SystemExit(out)
    return wt


def build_so(wt):
    return sh(['gcc', '-O2', '-fPIC', '-shared', '-w', 'src/cpp/mydpss.c', '-o', SO, '-lm'], cwd=wt)


def do_verify(which):
    wt = scratch()
    try:
        for sid in which:
            d = os.path.join(SEEDED, sid)
            meta = json.load(open(os.path.join(d, 'meta.json')))
            env = dict(os.environ, PYTHONPATH=os.path.join(wt, 'src'), MPLBACKEND='Agg')
            sh(['git', 'checkout', '--', '.'], cwd=wt)
            build_so(wt)
            rc_clean, out_clean = sh([PY, '-W', 'ignore', os.path.join(d, 'demo.py')], cwd=wt, env=env)
            rc, out = sh(['git', 'apply', os.path.join(d, 'patch.diff')], cwd=wt)
            applied = rc == 0
            tests = demo = None
            if applied:
                build_so(wt)
                rc_t, out_t = sh([PY, '-m', 'pytest', 'test', '-q', '-p', 'no:cacheprovider', '--timeout=900'], cwd=wt, env=env)
                tests = out_t.strip().splitlines()[-1] if out_t.strip() else ''
                rc_m, out_m = sh([PY, '-W', 'ignore', os.path.join(d, 'demo.py')], cwd=wt, env=env)
                demo = rc_m
            meta['confirmed'] = {'patch_applies_to_repo_head': applied, 'tests_with_change': tests,
                                 'demo_exit_clean': rc_clean, 'demo_exit_with_change': demo,
                                 'ok': bool(applied and tests and tests.startswith('165 passed') and rc_clean == 0 and demo not in (0, None))}
            json.dump(meta, open(os.path.join(d, 'meta.json'), 'w'), indent=1)
            print(sid, meta['confirmed'])
            sh(['git', 'checkout', '--', '.'], cwd=wt)
    finally:
        sh(['git', '-C', REPO, 'worktree', 'remove', '--force', wt])


def do_run(which, tier='quick'):
    res_path = os.path.join(SEEDED, 'RESULTS.json')
    results = json.load(open(res_path)) if os.path.isfile(res_path) else {}
    rc, out = sh(['git', '-C', REPO, 'status', '--porcelain', '--untracked-files=no'])
    if out.strip():
        raise SystemExit('/repo has uncommitted changes:\n' + out)
    for sid in which:
        d = os.path.join(SEEDED, sid)
        meta = json.load(open(os.path.join(d, 'meta.json')))
        props = [sid.split('-')[0]] + list(meta.get('also', []))
        rc, out = sh(['git', '-C', REPO, 'apply', os.path.join(d, 'patch.diff')])
        if rc:
            print(sid, 'PATCH DOES NOT APPLY', out[-200:])
            results[sid] = {'error': 'patch does not apply'}
            continue
        try:
            entry = {}
            for p in props:
                rc, out = sh([os.path.join(VERIF, 'check'), p, tier], cwd=VERIF)
                viol = [l for l in out.splitlines() if l.startswith('VIOLATION')]
                first = [l.strip() for l in out.splitlines() if l.startswith('  #')][:3]
                entry[p] = {'exit': rc, 'violations': len(viol), 'first': [f[:200] for f in first]}
            results[sid] = entry
            caught = any(v['exit'] == 1 and v['violations'] for v in entry.values())
            print('%-10s %s  %s' % (sid, 'CAUGHT' if caught else 'MISSED',
                                    {p: (v['exit'], v['violations']) for p, v in entry.items()}))
        finally:
            sh(['git', '-C', REPO, 'checkout', '--', '.'])
        json.dump(results, open(res_path, 'w'), indent=1)


if __name__ == '__main__':
    cmd = sys.argv[1]
    if cmd == 'import':
        do_import(sys.argv[2], sys.argv[3], sys.argv[4] if len(sys.argv) > 4 else '')
    elif cmd == 'verify':
        do_verify(ids(sys.argv[2:]))
    elif cmd == 'run':
        do_run(ids(sys.argv[2:]))
    elif cmd == 'run-thorough':
        do_run(ids(sys.argv[2:]), 'thorough')
