#!/usr/bin/env python3
"""Regenerate the seeded-change table of DESIGN.md (between the SEEDED-TABLE markers)
from seeded/*/meta.json and seeded/RESULTS.json."""
import json
import os
import re

VERIF = os.path.dirname(os.path.dirname(os.path.abspath(__file__)))
SEEDED = os.path.join(VERIF, 'seeded')


def main():
    res = json.load(open(os.path.join(SEEDED, 'RESULTS.json')))
    rows = ['| id | what was changed | needs | confirmed | caught by (quick tier, first signatures) |', '|---|---|---|---|---|']
    ncaught = ntotal = 0
    for sid in sorted(d for d in os.listdir(SEEDED) if os.path.isdir(os.path.join(SEEDED, d))):
        meta = json.load(open(os.path.join(SEEDED, sid, 'meta.json')))
        conf = meta.get('confirmed', {})
        ok = 'yes' if conf.get('ok') else ('patch no longer applies' if conf.get('patch_applies_to_repo_head') is False else 'no')
        if meta.get('out_of_scope'):
            ok += ' (out of scope: %s)' % str(meta['out_of_scope'])[:60]
        r = res.get(sid, {})
        caught = []
        for prop, v in r.items():
            if isinstance(v, dict) and v.get('exit') == 1 and v.get('violations'):
                names = []
                for line in v.get('first', []):
                    m = re.match(r'#\s*(\S+)', line)
                    if m and m.group(1) not in names:
                        names.append(m.group(1))
                caught.append('%s: %s' % (prop, ', '.join('`%s`' % n for n in names[:2])))
        if conf.get('ok') and not meta.get('out_of_scope'):
            ntotal += 1
            ncaught += 1 if caught else 0

        def clean(t, n):
            t = str(t or '').replace('|', '/').replace('\n', ' ')
            return t if len(t) <= n else t[:n - 1] + '…'
        rows.append('| %s | %s | %s | %s | %s |' % (sid, clean(meta.get('summary'), 150), clean(meta.get('needs'), 110), ok,
                                                   '; '.join(caught) if caught else ('—' if 'error' in r else '**missed**')))
    rows.append('')
    rows.append('Caught by the quick tier of the owning property: **%d of %d** confirmed changes.' % (ncaught, ntotal))
    path = os.path.join(VERIF, 'DESIGN.md')
    s = open(path).read()
    a = s.index('<!-- SEEDED-TABLE-BEGIN -->') + len('<!-- SEEDED-TABLE-BEGIN -->')
    b = s.index('<!-- SEEDED-TABLE-END -->')
    s = s[:a] + '\n' + '\n'.join(rows) + '\n' + s[b:]
    open(path, 'w').write(s)
    print('%d/%d' % (ncaught, ntotal))


if __name__ == '__main__':
    main()
