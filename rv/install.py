"""Kind-A monitors: icontract postconditions attached from outside to the real
callables, in *every* spectrum module namespace that bound them at import.

A condition is a named function whose parameters are a subset of the
function's parameters plus `result` (and `OLD` when snapshots are given).  In
collect mode (always, here) the condition records its verdict through the
current Ctx and returns True, so one defect does not mask the rest of a run
and never changes the behaviour of the code under test.
"""
import functools
import importlib
import sys

from . import bootstrap

CURRENT = {'ctx': None}
_installed = {}      # (module, attr) -> (orig, wrapped, counter-name)


class ContractBroken(AssertionError):
    pass


def ctx():
    return CURRENT['ctx']


def _patch_everywhere(orig, wrapped):
    n = 0
    for name, mod in list(sys.modules.items()):
        if mod is None or not (name == 'spectrum' or name.startswith('spectrum.')):
            continue
        d = getattr(mod, '__dict__', None)
        if not d:
            continue
        for k, v in list(d.items()):
            if v is orig:
                setattr(mod, k, wrapped)
                n += 1
    return n


def contract(module, attr, cond, snapshots=()):
    """Attach `cond` as a postcondition of module.attr; idempotent."""
    bootstrap.ensure_deps()
    import icontract
    key = (module, attr)
    if key in _installed:
        return _installed[key][1]
    mod = importlib.import_module(module)
    orig = getattr(mod, attr)
    cname = 'contract:%s.%s' % (module.split('.')[-1], attr)

    @functools.wraps(cond)
    def counted(*a, **kw):
        c = CURRENT['ctx']
        if c is None:
            return True
        c.counters[cname] += 1
        try:
            cond(*a, **kw)
        except Exception as exc:      # a bug in the monitor must not alter the run
            c.counters['monitor_error:%s' % cname] += 1
            c.extra.setdefault('monitor_errors', [])
            if len(c.extra['monitor_errors']) < 5:
                c.extra['monitor_errors'].append('%s: %r' % (cname, exc))
            c.flag_inconclusive('monitor error in %s' % cname)
        return True
    wrapped = icontract.ensure(counted, error=ContractBroken)(orig)
    # icontract requires snapshot decorators to sit *above* the postcondition
    for name, capture in snapshots:
        wrapped = icontract.snapshot(capture, name=name)(wrapped)
    # code that introspects the callable (create_window reads window_*.__defaults__) must see
    # what it saw before the monitor was attached
    for attr_ in ('__defaults__', '__kwdefaults__'):
        try:
            setattr(wrapped, attr_, getattr(orig, attr_))
        except (AttributeError, TypeError):
            pass
    n = _patch_everywhere(orig, wrapped)
    _installed[key] = (orig, wrapped, cname, n)
    return wrapped


def original(module, attr):
    """The undecorated callable (for oracles that need a second opinion)."""
    key = (module, attr)
    if key in _installed:
        return _installed[key][0]
    return getattr(importlib.import_module(module), attr)


def bindings():
    return {'%s.%s' % k: v[3] for k, v in _installed.items()}


def require_evaluated(c, names):
    """Zero evaluations of a deciding contract => inconclusive, never 'held'."""
    for n in names:
        if c.counters.get('contract:%s' % n, 0) == 0:
            c.flag_inconclusive('contract %s was never evaluated' % n)


def frozen(module, attr, argnames):
    """Caller-owned arguments stay the caller's: wraps module.attr (on top of a contract, if one is installed) so
    that the named array/list arguments are snapshotted before every call and compared afterwards.  A difference is
    recorded as '<attr>:argument-<name>-not-modified' (collect mode; the call itself is never altered)."""
    import inspect
    import numpy as np
    key = (module, attr)
    mod = importlib.import_module(module)
    if key in _installed:
        orig, cur, cname, n0 = _installed[key]
    else:
        orig = cur = getattr(mod, attr)
        cname, n0 = None, 0
    try:
        sig = inspect.signature(orig)
    except (TypeError, ValueError):
        return cur
    label = '%s.%s' % (module.split('.')[-1], attr)

    def snap(v):
        if isinstance(v, np.ndarray):
            return ('a', np.array(v, copy=True), v.shape)
        if isinstance(v, list):
            try:
                return ('l', list(v), len(v))
            except Exception:
                return None
        return None

    last_out = []          # the arrays the previous call returned (kept alive here, at most one call's worth)

    def _arrays(o, depth=0):
        if isinstance(o, np.ndarray):
            return [o] if o.size <= 100000 else []
        if isinstance(o, (tuple, list)) and depth < 2 and len(o) <= 8:
            out = []
            for v in o:
                out += _arrays(v, depth + 1)
            return out
        return []

    @functools.wraps(orig)
    def guard(*a, **kw):
        c = CURRENT['ctx']
        snaps = {}
        prev = [(arr, np.array(arr, copy=True)) for arr in last_out] if c is not None else []
        if c is not None:
            try:
                bound = sig.bind(*a, **kw)
                for nm in argnames:
                    if nm in bound.arguments:
                        s = snap(bound.arguments[nm])
                        if s is not None:
                            snaps[nm] = (bound.arguments[nm], s)
            except TypeError:
                snaps = {}
        out = cur(*a, **kw)
        if c is not None:
            # what an earlier call returned is the caller's: this call must not have written into it (a result that is
            # a view of a buffer the function keeps).  Compared against a snapshot taken at entry of *this* call, so
            # whatever the caller itself did to those arrays in between does not count.
            if prev:
                try:
                    same_prev = all(np.array_equal(arr, before, equal_nan=True) for arr, before in prev)
                except TypeError:
                    same_prev = all(np.array_equal(arr, before) for arr, before in prev)
                c.counters['stable-output:%s' % label] += 1
                c.require('%s:earlier-result-unchanged-by-this-call' % attr, bool(same_prev), {'arrays': len(prev)},
                          {'fn': attr, 'clause': 'returned-arrays-stay-the-callers'})
            last_out[:] = _arrays(out)
        if c is not None and snaps:
            for nm, (obj, (kind, before, shape)) in snaps.items():
                try:
                    if kind == 'a':
                        try:
                            eq = np.array_equal(obj, before, equal_nan=True)     # NaN samples are still the same samples
                        except TypeError:
                            eq = np.array_equal(obj, before)
                        same = obj.shape == shape and bool(eq)
                    else:
                        same = len(obj) == shape and all(x is y or x == y or (x != x and y != y) for x, y in zip(obj, before))
                except Exception:
                    same = True
                c.counters['frozen:%s(%s)' % (label, nm)] += 1
                c.require('%s:argument-%s-not-modified' % (attr, nm), same, {'argument': nm, 'kind': kind}, {'fn': attr, 'clause': 'caller-arrays-unchanged'})
        return out
    for attr_ in ('__defaults__', '__kwdefaults__'):
        try:
            setattr(guard, attr_, getattr(orig, attr_))
        except (AttributeError, TypeError):
            pass
    n = _patch_everywhere(cur, guard)
    _installed[key] = (orig, guard, cname or 'frozen:%s' % label, n0 or n)
    return guard
