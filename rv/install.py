"""Kind-A monitors: icontract postconditions attached from outside to the real
callables, in *every* spectrum module namespace that bound them at import.

A condition is a named function whose parameters are a subset of the
function's parameters plus `result` (and `OLD` when snapshots are given).  In
collect mode (always, here) the condition records its verdict through the
current Ctx and returns True, so one defect does not mask the rest of a run
and never changes the behaviour of the code under test.
"""
import functools
import importlib
import sys

from . import bootstrap

CURRENT = {'ctx': None}
_installed = {}      # (module, attr) -> (orig, wrapped, counter-name)


class ContractBroken(AssertionError):
    pass


def ctx():
    return CURRENT['ctx']


def _patch_everywhere(orig, wrapped):
    n = 0
    for name, mod in list(sys.modules.items()):
        if mod is None or not (name == 'spectrum' or name.startswith('spectrum.')):
            continue
        d = getattr(mod, '__dict__', None)
        if not d:
            continue
        for k, v in list(d.items()):
            if v is orig:
                setattr(mod, k, wrapped)
                n += 1
    return n


def contract(module, attr, cond, snapshots=()):
    """Attach `cond` as a postcondition of module.attr; idempotent."""
    bootstrap.ensure_deps()
    import icontract
    key = (module, attr)
    if key in _installed:
        return _installed[key][1]
    mod = importlib.import_module(module)
    orig = getattr(mod, attr)
    cname = 'contract:%s.%s' % (module.split('.')[-1], attr)

    @functools.wraps(cond)
    def counted(*a, **kw):
        c = CURRENT['ctx']
        if c is None:
            return True
        c.counters[cname] += 1
        try:
            cond(*a, **kw)
        except Exception as exc:      # a bug in the monitor must not alter the run
            c.counters['monitor_error:%s' % cname] += 1
            c.extra.setdefault('monitor_errors', [])
            if len(c.extra['monitor_errors']) < 5:
                c.extra['monitor_errors'].append('%s: %r' % (cname, exc))
            c.flag_inconclusive('monitor error in %s' % cname)
        return True
    wrapped = icontract.ensure(counted, error=ContractBroken)(orig)
    # icontract requires snapshot decorators to sit *above* the postcondition
    for name, capture in snapshots:
        wrapped = icontract.snapshot(capture, name=name)(wrapped)
    # code that introspects the callable (create_window reads window_*.__defaults__) must see
    # what it saw before the monitor was attached
    for attr_ in ('__defaults__', '__kwdefaults__'):
        try:
            setattr(wrapped, attr_, getattr(orig, attr_))
        except (AttributeError, TypeError):
            pass
    n = _patch_everywhere(orig, wrapped)
    _installed[key] = (orig, wrapped, cname, n)
    return wrapped


def original(module, attr):
    """The undecorated callable (for oracles that need a second opinion)."""
    key = (module, attr)
    if key in _installed:
        return _installed[key][0]
    return getattr(importlib.import_module(module), attr)


def bindings():
    return {'%s.%s' % k: v[3] for k, v in _installed.items()}


def require_evaluated(c, names):
    """Zero evaluations of a deciding contract => inconclusive, never 'held'."""
    for n in names:
        if c.counters.get('contract:%s' % n, 0) == 0:
            c.flag_inconclusive('contract %s was never evaluated' % n)
