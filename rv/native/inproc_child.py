"""Child process of the in-process sanitizer lane.  Started with
LD_PRELOAD=<asan runtime>; loads the ASan+UBSan build of mydpss.c, rebinds
spectrum.mtm.mtspeclib and drives the REAL dpss()/pmtm() ctypes path.
argv: <SPECTRUM_SRC> <asan .so> <cases.json> <out.json>"""
import ctypes
import io
import json
import sys
import contextlib

src, lib, cases_path, out_path = sys.argv[1:5]
sys.path.insert(0, src)
import numpy as np
with contextlib.redirect_stdout(io.StringIO()):
    import spectrum
    import spectrum.mtm as mtm
assert spectrum.__file__.startswith(src), spectrum.__file__
mtm.mtspeclib = ctypes.CDLL(lib)
cases = json.load(open(cases_path))
out = []
for cs in cases:
    N, NW, k = cs['N'], cs['NW'], cs['k']
    try:
        if cs.get('via') == 'pmtm':
            x = np.cos(0.3 * np.arange(N)) + 0.01 * np.arange(N)
            sk, w, e = mtm.pmtm(x, NW=NW, k=k, NFFT=cs.get('NFFT'), method=cs.get('method', 'eigen'))
            out.append({'ok': True, 'c1': float(np.sum(np.abs(sk))), 'c2': float(np.sum(e)), 'c3': float(np.sum(w))})
        else:
            t, e = mtm.dpss(N, NW, k)
            wts = np.outer(np.arange(1, N + 1), np.arange(1, t.shape[1] + 1))
            out.append({'ok': True, 'c1': float(np.sum(t * wts)), 'c2': float(np.sum(e)), 'c3': float(np.sum(np.abs(t)))})
    except AssertionError as exc:
        out.append({'ok': False, 'exc': 'AssertionError'})
    json.dump(out, open(out_path, 'w'))
json.dump(out, open(out_path, 'w'))
print('INPROC-DONE %d' % len(out))
