/* Stand-alone driver for src/cpp/mydpss.c (linked with it).
 * stdin: lines "N nwin NW"; every buffer handed to multitap() is malloc'ed with
 * exactly the size the Python caller (spectrum.mtm.dpss) uses, so that red
 * zones / valgrind see any access outside them.  stdout: one line per case
 *   "N nwin NW  sum(lam)  sum_k sum_n (n+1)(k+1) tapers[k*N+n]  sum(|tapers|)  sum(tapsum)"
 * printed with %.17g for the differential check against the plain -O2 build. */
#include <stdio.h>
#include <stdlib.h>
#include <math.h>

void multitap(int n, int nwin, double *el, float npi, double *tapers, double *tapsum);

int main(void)
{
    int N, nwin;
    double NW;
    while (scanf("%d %d %lf", &N, &nwin, &NW) == 3) {
        double *lam = (double *)malloc(sizeof(double) * (size_t)nwin);
        double *tapers = (double *)malloc(sizeof(double) * (size_t)nwin * (size_t)N);
        double *tapsum = (double *)malloc(sizeof(double) * (size_t)nwin);
        long i, k;
        double s1 = 0, s2 = 0, s3 = 0, s4 = 0;
        if (!lam || !tapers || !tapsum) { fprintf(stderr, "oom\n"); return 3; }
        for (i = 0; i < nwin; i++) { lam[i] = 0; tapsum[i] = 0; }
        for (i = 0; i < (long)nwin * N; i++) tapers[i] = 0;
        multitap(N, nwin, lam, (float)NW, tapers, tapsum);
        for (k = 0; k < nwin; k++) {
            s1 += lam[k];
            s4 += tapsum[k];
            for (i = 0; i < N; i++) {
                double v = tapers[k * (long)N + i];
                s2 += (double)(i + 1) * (double)(k + 1) * v;
                s3 += fabs(v);
            }
        }
        printf("%d %d %.9g %.17g %.17g %.17g %.17g\n", N, nwin, NW, s1, s2, s3, s4);
        fflush(stdout);
        free(lam); free(tapers); free(tapsum);
    }
    return 0;
}
