"""Known findings: a committed, read-only list of genuine defects that were
recorded instead of repaired.  A failing comparison is absorbed by an *open*
entry only if (a) the entry lists the property, (b) every structural feature
in the entry's `match` agrees with the failing case's features, and (c) when
the entry names a characterisation, the residual oracle supplied by the check
confirms that the code still behaves exactly as the recorded defect does.
Entries with status "fixed" suppress nothing.  The file is never written here.
"""
import fnmatch
import json
import os

_PATH = os.path.join(os.path.dirname(os.path.dirname(os.path.abspath(__file__))),
                     'known_findings.json')
_cache = None


def load():
    global _cache
    if _cache is None:
        try:
            with open(_PATH) as f:
                _cache = json.load(f).get('findings', [])
        except FileNotFoundError:
            _cache = []
    return _cache


def _match_one(pattern, value):
    if isinstance(pattern, list):
        return any(_match_one(p, value) for p in pattern)
    if isinstance(pattern, str) and isinstance(value, str):
        return fnmatch.fnmatchcase(value, pattern)
    return pattern == value


def classify(prop, feats, charact=None):
    for f in load():
        if f.get('status') != 'open':
            continue
        if prop not in f.get('properties', []):
            continue
        m = f.get('match', {})
        if not all(k in feats and _match_one(v, feats[k]) for k, v in m.items()):
            continue
        if f.get('characterisation'):
            if charact is None:
                continue
            try:
                if not charact(f['characterisation']):
                    continue
            except Exception:
                continue
        return f['key']
    return None


def what_fails(key):
    for f in load():
        if f['key'] == key:
            return f.get('what_fails', '')
    return ''
