"""Environment bootstrap: third-party monitor libraries, the code under test,
and a fresh build of the C helper library.

Nothing here judges anything; it only makes sure that what the monitors
observe is the tree named by SPECTRUM_SRC (default /repo/src) and the C code
compiled from *that* tree's src/cpp/mydpss.c.
"""
import atexit
import ctypes
import io
import os
import shutil
import subprocess
import sys
import contextlib

VERIF = os.path.dirname(os.path.dirname(os.path.abspath(__file__)))
DEPS = os.path.join(VERIF, '.deps')
WHEELS = '/opt/veriftools/wheels'
SRC = os.path.abspath(os.environ.get('SPECTRUM_SRC', '/repo/src'))
GUARD = 'SPECTRUM_VERIF'


class BootstrapError(Exception):
    pass


def ensure_deps():
    """icontract / deal beside the repository's interpreter, offline."""
    if not os.path.isdir(os.path.join(DEPS, 'icontract')):
        os.makedirs(DEPS, exist_ok=True)
        cmd = [sys.executable, '-m', 'pip', 'install', '--quiet', '--no-index',
               '--find-links', WHEELS, '--target', DEPS, 'icontract', 'deal']
        env = dict(os.environ, PIP_NO_INDEX='1', PIP_DISABLE_PIP_VERSION_CHECK='1')
        r = subprocess.run(cmd, env=env, stdout=subprocess.PIPE,
                           stderr=subprocess.STDOUT, timeout=600)
        if r.returncode != 0 or not os.path.isdir(os.path.join(DEPS, 'icontract')):
            raise BootstrapError('offline install of icontract/deal failed: %s'
                                 % r.stdout.decode(errors='replace')[-400:])
    if DEPS not in sys.path:
        sys.path.append(DEPS)


_spectrum = None


def import_spectrum():
    """Import the code under test from SPECTRUM_SRC and prove where it came from."""
    global _spectrum
    if _spectrum is not None:
        return _spectrum
    os.environ[GUARD] = '1'
    if not os.path.isdir(os.path.join(SRC, 'spectrum')):
        raise BootstrapError('no spectrum package under %s' % SRC)
    sys.path.insert(0, SRC)
    buf = io.StringIO()
    with contextlib.redirect_stdout(buf):
        import spectrum  # noqa
    where = os.path.abspath(spectrum.__file__)
    if not where.startswith(SRC + os.sep):
        raise BootstrapError('spectrum imported from %s, expected under %s' % (where, SRC))
    import logging
    logging.getLogger().setLevel(logging.ERROR)
    _spectrum = spectrum
    return spectrum


_native = {}


def c_source():
    return os.path.join(SRC, 'cpp', 'mydpss.c')


def build_dir():
    d = os.path.join(VERIF, '.build', 'p%d' % os.getpid())
    if not os.path.isdir(d):
        os.makedirs(d, exist_ok=True)
        atexit.register(shutil.rmtree, d, True)
    return d


def build_native(kind='plain'):
    """Compile mydpss.c of the tree under test. kind: plain | asan."""
    if kind in _native:
        return _native[kind]
    src = c_source()
    if not os.path.isfile(src):
        raise BootstrapError('C source not found: %s' % src)
    out = os.path.join(build_dir(), 'mydpss_%s.so' % kind)
    if kind == 'plain':
        cmd = ['gcc', '-O2', '-fPIC', '-shared', '-w', src, '-o', out, '-lm']
    elif kind == 'asan':
        cmd = ['clang', '-O1', '-g', '-fPIC', '-shared', '-w',
               '-fsanitize=address,undefined', '-fno-sanitize-recover=all',
               '-fno-omit-frame-pointer', src, '-o', out, '-lm']
    else:
        raise ValueError(kind)
    r = subprocess.run(cmd, stdout=subprocess.PIPE, stderr=subprocess.STDOUT, timeout=300)
    if r.returncode != 0:
        raise BootstrapError('build of %s (%s) failed: %s' %
                             (src, kind, r.stdout.decode(errors='replace')[-600:]))
    _native[kind] = out
    return out


def rebind_native(kind='plain'):
    """Make spectrum.mtm use a library compiled now from the tree under test."""
    import_spectrum()
    import spectrum.mtm as mtm
    path = build_native(kind)
    mtm.mtspeclib = ctypes.CDLL(path)
    return path


def asan_runtime():
    r = subprocess.run(['clang', '-print-file-name=libclang_rt.asan-x86_64.so'],
                       stdout=subprocess.PIPE, timeout=60)
    p = r.stdout.decode().strip()
    if not os.path.isfile(p):
        raise BootstrapError('ASan runtime not found')
    return p


def smod(name):
    """The spectrum sub-module `name` (several are shadowed by same-named functions
    in the package namespace, e.g. spectrum.modcovar, spectrum.lpc)."""
    import importlib
    import_spectrum()
    return importlib.import_module('spectrum.' + name)
