"""Kind-F monitors: compiler sanitizers and valgrind on src/cpp/mydpss.c.

Three lanes, one sanitizer family per build (address+undefined together):
  inproc  : ASan+UBSan build of mydpss.c loaded into a child /venv/bin/python
            (LD_PRELOAD of the ASan runtime), driven through the real
            spectrum.mtm.dpss / pmtm ctypes calls;
  driver  : stand-alone C driver linked with mydpss.c, ASan+UBSan,
            -fno-sanitize-recover=all;
  valgrind: memcheck on a gcc -O0 build of the same driver.
Every lane ends with a differential check against the plain -O2 build.
"""
import json
import os
import re
import subprocess
import sys

from . import bootstrap

HERE = os.path.dirname(os.path.abspath(__file__))
DRIVER_C = os.path.join(HERE, 'native', 'driver.c')
CHILD = os.path.join(HERE, 'native', 'inproc_child.py')
_built = {}


def build_driver(kind):
    if kind in _built:
        return _built[kind]
    out = os.path.join(bootstrap.build_dir(), 'driver_%s' % kind)
    src = bootstrap.c_source()
    if kind == 'plain':
        cmd = ['gcc', '-O2', '-w', DRIVER_C, src, '-o', out, '-lm']
    elif kind == 'asan':
        cmd = ['clang', '-O1', '-g', '-w', '-fsanitize=address,undefined', '-fno-sanitize-recover=all',
               '-fno-omit-frame-pointer', DRIVER_C, src, '-o', out, '-lm']
    elif kind == 'valgrind':
        cmd = ['gcc', '-O0', '-gdwarf-4', '-w', DRIVER_C, src, '-o', out, '-lm']
    else:
        raise ValueError(kind)
    r = subprocess.run(cmd, stdout=subprocess.PIPE, stderr=subprocess.STDOUT, timeout=300)
    if r.returncode != 0:
        raise bootstrap.BootstrapError('driver build (%s) failed: %s' % (kind, r.stdout.decode(errors='replace')[-500:]))
    _built[kind] = out
    return out


def _feed(triples):
    return ''.join('%d %d %.9g\n' % (N, k, NW) for (N, k, NW) in triples).encode()


def _parse(out):
    rows = []
    for line in out.decode(errors='replace').splitlines():
        p = line.split()
        if len(p) == 7:
            rows.append([float(v) for v in p[3:]])
    return rows


def run_driver(kind, triples, timeout=600):
    """Returns dict(rows, returncode, report)."""
    exe = build_driver(kind)
    env = dict(os.environ)
    cmd = [exe]
    if kind == 'asan':
        env['ASAN_OPTIONS'] = 'detect_leaks=0:halt_on_error=1:abort_on_error=0:exitcode=23'
        env['UBSAN_OPTIONS'] = 'print_stacktrace=1:halt_on_error=1:exitcode=24'
    elif kind == 'valgrind':
        cmd = ['valgrind', '--quiet', '--error-exitcode=9', '--track-origins=yes', '--leak-check=no', exe]
    try:
        r = subprocess.run(cmd, input=_feed(triples), stdout=subprocess.PIPE, stderr=subprocess.PIPE,
                           timeout=timeout, env=env)
    except subprocess.TimeoutExpired:
        return {'rows': [], 'returncode': None, 'report': 'timeout', 'timeout': True}
    err = r.stderr.decode(errors='replace')
    return {'rows': _parse(r.stdout), 'returncode': r.returncode, 'report': _clip(err), 'timeout': False}


def _clip(text):
    return text if len(text) <= 3200 else text[:2200] + '\n[...]\n' + text[-900:]


REPORT_RE = re.compile(r'ERROR: AddressSanitizer|runtime error:|ERROR: LeakSanitizer|== Invalid|== Conditional jump|'
                       r'== Use of uninitialised|== Invalid free|definitely lost')


def count_reports(text):
    return len(REPORT_RE.findall(text or ''))


def run_inproc(cases, timeout=300):
    """Run dpss/pmtm cases in a child python under the ASan runtime. Returns dict."""
    lib = bootstrap.build_native('asan')
    rt = bootstrap.asan_runtime()
    d = bootstrap.build_dir()
    cpath = os.path.join(d, 'inproc_cases_%d.json' % os.getpid())
    opath = os.path.join(d, 'inproc_out_%d.json' % os.getpid())
    with open(cpath, 'w') as f:
        json.dump(cases, f)
    if os.path.exists(opath):
        os.unlink(opath)
    env = dict(os.environ)
    env['LD_PRELOAD'] = rt
    # symbolize=0: inside a Python process the external symbolizer can dead-lock while a heap report
    # is being printed; the report still names the module and offset, and the stand-alone lane symbolizes
    env['ASAN_OPTIONS'] = os.environ.get('RV_ASAN_INPROC', 'detect_leaks=0:halt_on_error=1:abort_on_error=0:exitcode=23:symbolize=0')
    env['UBSAN_OPTIONS'] = 'print_stacktrace=0:halt_on_error=1:exitcode=24'
    env['PYTHONPATH'] = bootstrap.DEPS
    try:
        r = subprocess.run([sys.executable, '-W', 'ignore', CHILD, bootstrap.SRC, lib, cpath, opath],
                           stdout=subprocess.PIPE, stderr=subprocess.PIPE, timeout=timeout, env=env)
    except subprocess.TimeoutExpired:
        return {'results': [], 'returncode': None, 'report': 'timeout', 'timeout': True, 'done': False}
    res = []
    if os.path.exists(opath):
        try:
            res = json.load(open(opath))
        except Exception:
            res = []
    out = r.stdout.decode(errors='replace')
    return {'results': res, 'returncode': r.returncode, 'report': _clip(r.stderr.decode(errors='replace')),
            'timeout': False, 'done': 'INPROC-DONE' in out}
