"""Statement-coverage targets per property: the anchored functions whose never-executed lines the evidence
lists (reach.cover: one sys.monitoring LINE event per line, then disabled - no measurable overhead)."""
import importlib

from . import install, reach

TARGETS = {
    'C01': ['periodogram.speriodogram', 'periodogram.Periodogram.__call__', 'correlog.CORRELOGRAMPSD',
            'correlog.pcorrelogram.__call__'],
    'C02': ['psd.Range.onesided_gen', 'psd.Range.twosided_gen', 'psd.Range.centerdc_gen', 'psd.Spectrum.frequencies',
            'eigenfre.eigen', 'eigenfre.pmusic.__call__', 'eigenfre.pev.__call__', 'burg.pburg.__call__',
            'yulewalker.pyule.__call__', 'covar.pcovar.__call__', 'modcovar.pmodcovar.__call__', 'arma.parma.__call__',
            'arma.pma.__call__', 'minvar.pminvar.__call__', 'mtm.MultiTapering.__call__'],
    'C03': ['burg.arburg', 'yulewalker.aryule', 'arma.arma_estimate', 'arma.ma', 'eigenfre.eigen',
            'eigenfre._get_signal_space', 'mtm.pmtm'],
    'C04': ['arma.arma2psd', 'eigenfre.eigen', 'tools.twosided_2_centerdc', 'tools.centerdc_2_twosided'],
    'C05': ['arma.arma2psd', 'minvar.minvar', 'mtm.pmtm', 'correlog.CORRELOGRAMPSD', 'psd.Spectrum._setNFFT'],
    'C08': ['psd.Spectrum.scale', 'arma.arma2psd', 'psd.Spectrum._setSampling', 'psd.Spectrum._setScale',
            'periodogram.DaniellPeriodogram', 'periodogram.pdaniell.__call__'],
    'C11': ['linear_prediction.ac2poly', 'linear_prediction.poly2ac', 'linear_prediction.ac2rc', 'linear_prediction.rc2ac',
            'linear_prediction.rc2poly', 'linear_prediction.poly2rc', 'linear_prediction.rc2lar',
            'linear_prediction.lar2rc', 'linear_prediction.rc2is', 'linear_prediction.is2rc',
            'linear_prediction.poly2lsf', 'linear_prediction.lsf2poly', 'levinson.levup', 'levinson.levdown',
            'levinson.rlevinson'],
    'C12': ['yulewalker.aryule', 'lpc.lpc', 'yulewalker.pyule.__call__'],
    'C13': ['criteria.Criteria.__call__', 'burg.pburg.__call__'],
    'C14': ['covar.arcovar', 'modcovar.modcovar', 'covar.arcovar_marple', 'modcovar.modcovar_marple'],
    'C16': ['minvar.minvar', 'minvar.pminvar.__call__'],
    'C18': ['mtm.dpss', 'mtm._other_dpss_method', 'mtm._autocov', 'mtm._fftconvolve', 'mtm._crosscovar'],
    'C19': ['mtm.pmtm', 'mtm.MultiTapering.__call__'],
    'C20': ['window.Window.__init__', 'window.Window.compute_response', 'window.enbw'],
}


def install_for(ctx, prop):
    funcs = {}
    for spec in TARGETS.get(prop, []):
        parts = spec.split('.')
        modname = 'spectrum.' + parts[0]
        try:
            if len(parts) == 2:
                fn = install.original(modname, parts[1])
            else:
                obj = importlib.import_module(modname)
                for p in parts[1:]:
                    obj = getattr(obj, p)
                fn = obj
        except Exception:
            ctx.count('coverage-target-missing:%s' % spec)
            continue
        funcs[spec.split('.', 1)[1]] = fn
    if funcs:
        reach.cover(ctx, funcs)
