"""Independent reference computations used by the oracles.  Nothing in this file
imports or calls the code under test."""
import numpy as np
import scipy.linalg


# ----------------------------------------------------------------- correlation
def pad_to(x, N):
    x = np.asarray(x)
    if len(x) == N:
        return x
    out = np.zeros(N, dtype=np.result_type(x.dtype, float))
    out[:len(x)] = x
    return out


def raw_corr(x, y, maxlags):
    """r[k] = sum_n x[n+k] conj(y[n]), k = 0..maxlags, shorter input zero-padded."""
    N = max(len(x), len(y))
    x = pad_to(x, N).astype(complex)
    y = pad_to(y, N).astype(complex)
    return np.array([np.dot(x[k:], np.conj(y[:N - k])) for k in range(maxlags + 1)])


def corr_def(x, y, maxlags, norm):
    N = max(len(x), len(y))
    r = raw_corr(x, y, maxlags)
    k = np.arange(maxlags + 1)
    if norm == 'biased':
        return r / N
    if norm == 'unbiased':
        return r / (N - k)
    if norm is None:
        return r
    if norm == 'coeff':
        xp = pad_to(x, N)
        return r / (N * np.mean(np.abs(xp) ** 2))
    raise ValueError(norm)


def herm_toeplitz(r):
    """Hermitian Toeplitz matrix with first column r (T[i,j] = r[i-j], r[-k] = conj r[k])."""
    r = np.asarray(r)
    return scipy.linalg.toeplitz(r, np.conj(r))


def full_data_matrix(x, m):
    """(N+m) x (m+1) 'autocorrelation' data matrix: C[i, j] = x[i-j] (0 outside)."""
    x = np.asarray(x)
    N = len(x)
    C = np.zeros((N + m, m + 1), dtype=complex if np.iscomplexobj(x) else float)
    for j in range(m + 1):
        C[j:j + N, j] = x
    return C


def data_matrix(x, m, method):
    x = np.asarray(x)
    N = len(x)
    C = full_data_matrix(x, m)
    if method == 'autocorrelation':
        return C
    if method == 'prewindowed':
        return C[:N]
    if method == 'postwindowed':
        return C[m:]
    if method == 'covariance':
        return C[m:N]
    if method == 'modified':
        T = C[m:N]
        return np.vstack([T, np.conj(T[:, ::-1])])
    raise ValueError(method)


# ----------------------------------------------------------------- lattice / Levinson
def stepup(k):
    """Reflection coefficients -> monic prediction polynomial [1, a1..ap]."""
    a = np.array([1.0 + 0j])
    for kk in k:
        a = np.concatenate([a, [0]]) + kk * np.conj(np.concatenate([a, [0]])[::-1])
    return a


def stepdown(a):
    """Monic polynomial -> reflection coefficients (k_p = a_p, recursively)."""
    a = np.asarray(a, dtype=complex)
    a = a / a[0]
    ks = []
    while len(a) > 1:
        k = a[-1]
        ks.append(k)
        den = 1 - abs(k) ** 2
        a = (a - k * np.conj(a[::-1]))[:-1] / den
    return np.array(ks[::-1])


def ac_from_rc(k, r0):
    """Autocorrelation lags r[0..p] implied by reflection coefficients and r0."""
    p = len(k)
    r = np.zeros(p + 1, dtype=complex)
    r[0] = r0
    a = np.array([1.0 + 0j])
    E = r0
    for m in range(1, p + 1):
        km = k[m - 1]
        # k_m = -(r[m] + sum_{j=1}^{m-1} a_j r[m-j]) / E
        acc = sum(a[j] * r[m - j] for j in range(1, m))
        r[m] = -km * E - acc
        a = np.concatenate([a, [0]]) + km * np.conj(np.concatenate([a, [0]])[::-1])
        E = E * (1 - abs(km) ** 2)
    return r


def levinson_ref(r, p):
    """Solve T_p a = -r[1..p] directly; return a, P, and reflection coeffs."""
    r = np.asarray(r, dtype=complex)
    T = herm_toeplitz(r[:p])
    a = np.linalg.solve(T, -r[1:p + 1])
    P = (r[0] + np.dot(a, np.conj(r[1:p + 1]))).real
    return a, P


def max_root_modulus(poly):
    poly = np.asarray(poly)
    if len(poly) < 2:
        return 0.0
    rt = np.roots(poly)
    return float(np.max(np.abs(rt))) if len(rt) else 0.0


# ----------------------------------------------------------------- spectra
def poly_on_grid(coefs, NFFT):
    """sum_k c[k] exp(-2 pi i f k) on f = j/NFFT by explicit sums (no FFT)."""
    c = np.asarray(coefs, dtype=complex)
    j = np.arange(NFFT)
    k = np.arange(len(c))
    return np.exp(-2j * np.pi * np.outer(j, k) / NFFT) @ c


def dft_direct(x, NFFT):
    x = np.asarray(x, dtype=complex)
    return poly_on_grid(x, NFFT)


def onesided_len(NFFT):
    return NFFT // 2 + 1 if NFFT % 2 == 0 else (NFFT + 1) // 2


def biased_ac(x, p):
    x = np.asarray(x)
    N = len(x)
    xc = x.astype(complex)
    return np.array([np.dot(xc[k:], np.conj(xc[:N - k])) for k in range(p + 1)]) / N
