"""Kind-E reach monitors and kind-D frame-local probes (sys.monitoring, 3.12+).

Reach: PY_START on the code objects named by a property's anchors; an anchor
that was never entered makes the run inconclusive (the monitors cannot have
observed the mechanism the property is about).

Probe: LINE events on ONE code object, at a line located by source *text*
(not by number), reading frame locals.  A probe whose anchor text is gone
reports probe_missing and is silent; it is never a violation by itself.
"""
import inspect
import sys

_mon = getattr(sys, 'monitoring', None)
TOOL_REACH = 3
TOOL_PROBE = 4
TOOL_COVER = 5
_state = {'reach': {}, 'probes': {}, 'on': False, 'cover': {}, 'cover_on': False}


def _code_of(fn):
    fn = inspect.unwrap(fn)
    if inspect.ismethod(fn):
        fn = fn.__func__
    if isinstance(fn, property):
        fn = fn.fget
    return getattr(fn, '__code__', None)


def _ensure_tools():
    if _mon is None or _state['on']:
        return
    for tid, name in ((TOOL_REACH, 'rv-reach'), (TOOL_PROBE, 'rv-probe')):
        try:
            _mon.use_tool_id(tid, name)
        except ValueError:
            pass
    _mon.register_callback(TOOL_REACH, _mon.events.PY_START, _on_start)
    _mon.register_callback(TOOL_PROBE, _mon.events.LINE, _on_line)
    _state['on'] = True


def _on_start(code, offset):
    r = _state['reach'].get(code)
    if r is not None:
        r[1] += 1


def watch(ctx, anchors):
    """anchors: {label: callable}.  Counts entries into each."""
    if _mon is None:
        ctx.extra['reach'] = 'sys.monitoring unavailable'
        return
    _ensure_tools()
    for label, fn in anchors.items():
        code = _code_of(fn)
        if code is None:
            continue
        _state['reach'][code] = [label, 0]
        _mon.set_local_events(TOOL_REACH, code, _mon.events.PY_START)


def report(ctx, required=()):
    entered = {lab: n for (lab, n) in _state['reach'].values()}
    ctx.extra['anchors_entered'] = entered
    if _state['probes']:
        ctx.extra['probes'] = {p['name']: (p['fired'] if p['line'] else 'missing')
                               for plist in _state['probes'].values() for p in plist}


def _on_line(code, line):
    plist = _state['probes'].get(code)
    if not plist:
        return _mon.DISABLE
    hit = False
    for p in plist:
        if p['line'] == line:
            hit = True
            p['fired'] += 1
            try:
                p['fn'](sys._getframe(1).f_locals)
            except Exception as exc:
                p['errors'] = p.get('errors', 0) + 1
                p['last_error'] = repr(exc)
    if not hit:
        return _mon.DISABLE
    return None


def probe(name, fn, anchor_text, callback, occurrence=0):
    """Call callback(frame_locals) each time execution reaches the first line of
    `fn` whose source contains anchor_text (BEFORE that line executes)."""
    if _mon is None:
        return False
    _ensure_tools()
    code = _code_of(fn)
    line = None
    try:
        src, first = inspect.getsourcelines(inspect.unwrap(fn))
        seen = 0
        for i, l in enumerate(src):
            if anchor_text in l and not l.strip().startswith('#'):
                if seen == occurrence:
                    line = first + i
                    break
                seen += 1
    except (OSError, TypeError):
        pass
    p = {'name': name, 'line': line, 'fn': callback, 'fired': 0}
    _state['probes'].setdefault(code, []).append(p)
    if line is not None:
        _mon.set_local_events(TOOL_PROBE, code, _mon.events.LINE)
    return line is not None


# ----------------------------------------------------------------- statement coverage of branchy anchors
def _on_cover_line(code, line):
    rec = _state['cover'].get(code)
    if rec is not None:
        rec[1].add(line)
    return _mon.DISABLE          # one event per (code, line) is all we need


def cover(ctx, funcs):
    """funcs: {label: callable}. Records which statement lines of each function were executed at least once;
    the evidence lists the lines that never were (branches the workload did not drive)."""
    if _mon is None:
        return
    if not _state['cover_on']:
        try:
            _mon.use_tool_id(TOOL_COVER, 'rv-cover')
        except ValueError:
            pass
        _mon.register_callback(TOOL_COVER, _mon.events.LINE, _on_cover_line)
        _state['cover_on'] = True
    import dis
    for label, fn in funcs.items():
        code = _code_of(fn)
        if code is None or code in _state['cover']:
            continue
        lines = set(l for _o, l in dis.findlinestarts(code) if l is not None and l != code.co_firstlineno)
        _state['cover'][code] = [label, set(), lines]
        _mon.set_local_events(TOOL_COVER, code, _mon.events.LINE)


def cover_report(ctx):
    if not _state['cover']:
        return
    out = {}
    for code, (label, seen, lines) in _state['cover'].items():
        out[label] = {'statement_lines': len(lines), 'executed': sorted(seen & lines),
                      'never_executed': sorted(lines - seen)}
    ctx.extra['line_coverage'] = out
