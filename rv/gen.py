"""Deterministic data generators.  data(desc, rng) regenerates the samples of a
case from its descriptor: {'kind', 'N', 'cplx', ...optional parameters...}.
The descriptor never contains random values; the generator draws them from
`rng`, which the harness derives from (seed, descriptor).
"""
import numpy as np

KINDS = ['noise', 'tones', 'ar', 'trend', 'int', 'const', 'impulse', 'alt', 'dyn', 'exact', 'sparse']


def stable_poly(rng, order, cplx, rmax=0.9):
    """Random monic polynomial with all roots inside |z| < rmax."""
    roots = []
    if cplx:
        for _ in range(order):
            roots.append(rmax * np.sqrt(rng.uniform(0.05, 1)) * np.exp(2j * np.pi * rng.uniform()))
    else:
        k = order
        while k >= 2:
            r = rmax * np.sqrt(rng.uniform(0.05, 1)) * np.exp(1j * np.pi * rng.uniform(0.05, 0.95))
            roots += [r, np.conj(r)]
            k -= 2
        if k == 1:
            roots.append(rmax * rng.uniform(-1, 1))
    p = np.poly(roots) if roots else np.array([1.0])
    return p if cplx else p.real


def lfilter_ar(a, b, e):
    """y[n] = sum b[k] e[n-k] - sum_{k>=1} a[k] y[n-k]   (a[0] = b[0] = 1)."""
    y = np.zeros(len(e), dtype=np.result_type(e, a, b))
    for n in range(len(e)):
        acc = 0
        for k in range(len(b)):
            if n - k >= 0:
                acc = acc + b[k] * e[n - k]
        for k in range(1, len(a)):
            if n - k >= 0:
                acc = acc - a[k] * y[n - k]
        y[n] = acc
    return y


def noise(rng, N, cplx):
    if cplx:
        return (rng.standard_normal(N) + 1j * rng.standard_normal(N)) / np.sqrt(2)
    return rng.standard_normal(N)


def data(desc, rng):
    kind = desc['kind']
    N = int(desc['N'])
    cplx = bool(desc.get('cplx', False))
    n = np.arange(N)
    if kind == 'noise':
        x = noise(rng, N, cplx)
    elif kind == 'tones':
        K = int(desc.get('K', 1 + rng.integers(0, 3)))
        snr_db = desc.get('snr_db', 20.0)
        x = np.zeros(N, dtype=complex if cplx else float)
        for _ in range(K):
            f = rng.uniform(0.03, 0.47) * (rng.choice([-1, 1]) if cplx else 1)
            amp = rng.uniform(0.5, 2.0)
            ph = rng.uniform(0, 2 * np.pi)
            if cplx:
                x = x + amp * np.exp(1j * (2 * np.pi * f * n + ph))
            else:
                x = x + amp * np.cos(2 * np.pi * f * n + ph)
        x = x + noise(rng, N, cplx) * 10 ** (-snr_db / 20.0)
    elif kind == 'ar':
        p = int(desc.get('p', 1 + rng.integers(0, 5)))
        q = int(desc.get('q', 0))
        a = stable_poly(rng, p, cplx, 0.9)
        b = stable_poly(rng, q, cplx, 0.8) if q else np.array([1.0])
        e = noise(rng, N + 64, cplx)
        x = lfilter_ar(a, b, e)[64:]
    elif kind == 'trend':
        x = noise(rng, N, cplx) + rng.uniform(2, 20) + rng.uniform(-0.2, 0.2) * n
    elif kind == 'int':
        lo = int(desc.get('amp', 9))
        if cplx:
            x = rng.integers(-lo, lo + 1, N) + 1j * rng.integers(-lo, lo + 1, N)
        else:
            x = rng.integers(-lo, lo + 1, N)
            if desc.get('intdtype', True) is False:
                x = x.astype(float)
        if not np.any(x):
            x[0] = 1
    elif kind == 'const':
        x = np.full(N, rng.uniform(0.5, 3.0)) * (np.exp(1j * rng.uniform(0, 6.28)) if cplx else 1.0)
    elif kind == 'impulse':
        x = np.zeros(N, dtype=complex if cplx else float)
        x[int(rng.integers(0, N))] = (1 + 1j) if cplx else 1.0
    elif kind == 'sparse':
        # a few non-zero leading samples, exact zeros afterwards (autocorrelation lags exactly 0 beyond K-1)
        K = int(desc.get('K', 2 + rng.integers(0, 2)))
        x = np.zeros(N, dtype=complex if cplx else float)
        vals = rng.integers(1, 5, K) * rng.choice([-1, 1], K)
        x[:min(K, N)] = (vals + (1j * rng.integers(-3, 4, K) if cplx else 0))[:min(K, N)]
    elif kind == 'alt':
        x = ((-1.0) ** n) * rng.uniform(0.5, 2) + 0.01 * noise(rng, N, cplx)
    elif kind == 'dyn':
        base = noise(rng, N, cplx)
        f1, f2 = rng.uniform(0.05, 0.2), rng.uniform(0.25, 0.45)
        if cplx:
            base = base * 1e-3 + np.exp(2j * np.pi * f1 * n) + 1e-6 * np.exp(2j * np.pi * f2 * n)
        else:
            base = base * 1e-3 + np.cos(2 * np.pi * f1 * n) + 1e-6 * np.cos(2 * np.pi * f2 * n)
        x = base * 10.0 ** desc.get('exp10', rng.integers(-3, 4))
    elif kind == 'exact':
        # noiseless sum of K exponentials at the bins desc['bins'] of an NFFT grid
        NFFT = int(desc['grid'])
        x = np.zeros(N, dtype=complex)
        for b in desc['bins']:
            amp = rng.uniform(0.5, 2.0)
            ph = rng.uniform(0, 2 * np.pi)
            x = x + amp * np.exp(1j * (2 * np.pi * b * n / NFFT + ph))
        if not cplx:
            x = x.real * 2
    else:
        raise ValueError(kind)
    if cplx and not np.iscomplexobj(x):
        x = x.astype(complex)
    return variant(x, desc.get('variant'))


NARROW = ('int8', 'int16', 'int32', 'uint8', 'uint16')
LAYOUTS = ('strided', 'readonly')


def layout_variant(d, i, period=7):
    """Every `period`-th sampled case hands the record over as a non-contiguous view or as a read-only array."""
    if not d.get('variant') and i % period in (5, 6) and not d.get('list') and d.get('cont', 'array') == 'array':
        d['variant'] = LAYOUTS[i % period - 5]


def variant(x, v):
    """Storage variants of the same kind of record: 'zimag' = complex dtype whose imaginary part is exactly
    zero; a narrow integer dtype name = samples quantised to about 60 % of that type's full scale (wav / ADC data)."""
    if not v:
        return x
    if v == 'zimag':
        return np.asarray(x).real.astype(complex)
    if v == 'strided':
        # the same samples as every second element of a longer buffer (a non-contiguous view)
        x = np.asarray(x)
        big = np.empty(2 * len(x), dtype=x.dtype)
        big[::2] = x
        big[1::2] = 7
        return big[::2]
    if v == 'readonly':
        x = np.array(x, copy=True)
        x.flags.writeable = False
        return x
    if v == 'bool':
        if np.iscomplexobj(x):
            return x
        b = np.asarray(x, dtype=float) > 0
        if not np.any(b):
            b[0] = True
        return b
    if v in NARROW:
        if np.iscomplexobj(x):
            return x
        info = np.iinfo(v)
        xf = np.asarray(x, dtype=float)
        m = float(np.max(np.abs(xf))) or 1.0
        q = np.round(xf / m * 0.6 * info.max)
        if info.min == 0:
            q = np.abs(q)
        q = q.astype(v)
        if not np.any(q):
            q[0] = 1
        return q
    raise ValueError(v)


def pick(rng, seq):
    return seq[int(rng.integers(0, len(seq)))]


PRIMES = [2, 3, 5, 7, 11, 13, 17, 19, 23, 29, 31, 37, 41, 43, 47, 53, 59, 61, 67, 71, 73, 79, 83,
          89, 97, 101, 103, 107, 109, 113, 127, 131, 137, 139, 149, 151, 157, 163, 167, 173, 179,
          181, 191, 193, 197, 199, 211, 223, 227, 229, 233, 239, 241, 251, 257, 263, 269, 271]


def next_prime(n):
    for p in PRIMES:
        if p >= n:
            return p
    m = n | 1
    while True:
        if all(m % q for q in range(3, int(m ** 0.5) + 1, 2)):
            return m
        m += 2


def nfft_options(N):
    """Admissible NFFT >= N of every parity / kind the properties name."""
    p2 = 1 << int(np.ceil(np.log2(max(N, 1))))
    return sorted(set([N, N + 1, 2 * N - 1 if N > 1 else 2, 2 * N, 2 * N + 1,
                       next_prime(N + 1), p2, 2 * p2]))
