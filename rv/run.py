"""Entry point:  python -m rv.run <ID> <quick|thorough> [--replay file]
                                    [--shard i/n --partial out.json]
"""
import importlib
import json
import os
import subprocess
import sys
import time

from . import bootstrap
from .harness import Ctx, install_watchdog, jdump

SOFT_BUDGET = {'quick': 120.0, 'thorough': 1200.0}
HARD_WATCHDOG = {'quick': 1500, 'thorough': 3 * 3600}
NSHARDS_THOROUGH = int(os.environ.get('VERIF_SHARDS', '16'))


def usage():
    print('usage: ./check <C01..C20> <quick|thorough> [--replay <file>]')
    sys.exit(2)


def load_prop(pid):
    return importlib.import_module('rv.props.%s' % pid.lower())


def run_cases(ctx, mod, only=None, final=True, flush_to=None):
    last_flush = [time.time()]
    from . import install
    install.CURRENT['ctx'] = ctx
    if hasattr(mod, 'setup'):
        mod.setup(ctx)
    try:
        from . import frozen_targets
        frozen_targets.install_for(ctx, ctx.prop)
    except Exception as exc:
        ctx.count('frozen-monitors-not-installed:%s' % type(exc).__name__)
    try:
        from . import coverage_targets
        coverage_targets.install_for(ctx, ctx.prop)
    except Exception as exc:                     # a coverage monitor that cannot be installed decides nothing
        ctx.count('coverage-monitor-not-installed:%s' % type(exc).__name__)
    if only is not None:
        descs = [only]
    else:
        descs = mod.cases(ctx)
    for i, d in enumerate(descs):
        if only is None and not ctx.mine(i):
            continue
        if ctx.out_of_budget() and not d.get('directed'):
            ctx.count('cases_skipped_soft_budget')
            continue
        if flush_to and time.time() - last_flush[0] > 3.0:
            # keep what was observed so far, should the code under test kill this process later
            tmp = flush_to + '.tmp'
            with open(tmp, 'w') as f:
                f.write(jdump(ctx.partial()))
            os.replace(tmp, flush_to)
            last_flush[0] = time.time()
        ctx.begin_case(d, nontrivial=d.get('nontrivial', True))
        try:
            mod.run_case(ctx, d)
        except bootstrap.BootstrapError:
            raise
        except Exception as exc:     # harness/oracle bug: never a verdict on the code
            import traceback
            ctx.count('harness_errors')
            ctx.extra.setdefault('harness_errors', [])
            if len(ctx.extra['harness_errors']) < 5:
                ctx.extra['harness_errors'].append({'case': d, 'exc': repr(exc),
                                                    'tb': traceback.format_exc()[-1500:]})
            ctx.flag_inconclusive('harness error while running a case: %r' % (exc,))
        ctx.end_case()
    from . import reach
    reach.report(ctx, ())
    reach.cover_report(ctx)
    ctx.extra['contracts_bound_in_namespaces'] = install.bindings()
    if final and only is None:
        final_guards(ctx, mod)


def final_guards(ctx, mod):
    """Inconclusive-guards evaluated once, on the whole run (after the shards are merged)."""
    entered = ctx.extra.get('anchors_entered', {})
    if isinstance(entered, dict):
        for lab in getattr(mod, 'REQUIRED_ANCHORS', ()):
            if entered.get(lab, 0) == 0:
                ctx.flag_inconclusive('anchor %s was never entered' % lab)
    if hasattr(mod, 'finish'):
        mod.finish(ctx)


def main(argv):
    if len(argv) < 2:
        usage()
    pid = argv[0].upper()
    replay = None
    shard, nshards, partial = 0, 1, None
    tier = None
    i = 1
    while i < len(argv):
        a = argv[i]
        if a in ('quick', 'thorough'):
            tier = a
        elif a == '--replay':
            replay = argv[i + 1]
            i += 1
        elif a == '--shard':
            shard, nshards = [int(v) for v in argv[i + 1].split('/')]
            i += 1
        elif a == '--partial':
            partial = argv[i + 1]
            i += 1
        else:
            usage()
        i += 1
    tier = tier or os.environ.get('VERIF_TIER') or 'quick'
    seed = int(os.environ.get('VERIF_SEED', '0') or 0)

    if replay:
        rec = json.load(open(replay))
        seed = int(rec['record'].get('seed', seed))
        tier = rec.get('tier', tier)
    ctx = Ctx(pid, tier, seed, shard, nshards, replay=bool(replay))
    install_watchdog(ctx, HARD_WATCHDOG[tier])
    try:
        bootstrap.ensure_deps()
        bootstrap.import_spectrum()
        mod = load_prop(pid)
        ctx.rule = getattr(mod, 'RULE', '')
        ctx.assumptions = list(getattr(mod, 'ASSUMPTIONS', []))
        if getattr(mod, 'NEEDS_NATIVE', False):
            bootstrap.rebind_native('plain')
    except bootstrap.BootstrapError as exc:
        ctx.flag_inconclusive('bootstrap: %s' % exc)
        return ctx.finish()

    if replay:
        d = rec['record']['case']
        print('replaying case: %s' % jdump(d))
        try:
            run_cases(ctx, mod, only=d)
        except Exception as exc:
            ctx.flag_inconclusive('harness crashed during replay: %r' % (exc,))
        for sig, v in ctx.violations.items():
            print('  observed again: %s %s' % (v['first']['check'], jdump(v['first']['detail'])[:600]))
        if not ctx.violations:
            print('  no violation observed on replay')
        return ctx.finish()

    if partial is None:
        # the workload always runs in supervised child processes: a crash of the native library
        # (or of the interpreter) is then an observation of the parent, not the end of the check
        n = NSHARDS_THOROUGH if (tier == 'thorough' and getattr(mod, 'SHARDABLE', True)) else 1
        return supervise(ctx, pid, seed, tier, n)

    import faulthandler
    crashfile = open(partial + '.crash', 'w')
    faulthandler.enable(file=crashfile, all_threads=False)
    ctx.casefile = partial + '.case'
    ctx.soft_budget = float(os.environ.get('VERIF_SOFT_BUDGET', SOFT_BUDGET[tier]))
    try:
        run_cases(ctx, mod, final=partial is None, flush_to=partial)
    except bootstrap.BootstrapError as exc:
        ctx.flag_inconclusive('bootstrap: %s' % exc)
    except Exception as exc:          # a harness bug is never a verdict on the code under test
        import traceback
        ctx.extra['harness_crash'] = traceback.format_exc()[-2000:]
        ctx.flag_inconclusive('harness crashed: %r' % (exc,))
    if partial:
        with open(partial, 'w') as f:
            f.write(jdump(ctx.partial()))
        return 0
    return ctx.finish()


def supervise(ctx, pid, seed, tier, n):
    d = os.path.join(bootstrap.VERIF, '.shards', '%s_%d' % (pid, os.getpid()))
    os.makedirs(d, exist_ok=True)
    procs = []
    env = dict(os.environ, VERIF_SEED=str(seed))
    for s in range(n):
        out = os.path.join(d, 'p%d.json' % s)
        cmd = [sys.executable, '-W', 'ignore', '-m', 'rv.run', pid, tier,
               '--shard', '%d/%d' % (s, n), '--partial', out]
        procs.append((s, out, subprocess.Popen(cmd, cwd=bootstrap.VERIF, env=env,
                                               stdout=subprocess.PIPE, stderr=subprocess.STDOUT)))
    # source 3: the repository's own tests as a workload under this property's contracts
    mod = load_prop(pid)
    if tier == 'thorough' and getattr(mod, 'REPO_TESTS_UNDER_CONTRACTS', False):
        out = os.path.join(d, 'repotests.json')
        repo_root = os.path.dirname(bootstrap.SRC)
        env2 = dict(env, RV_PROP=pid, RV_PARTIAL=out, MPLBACKEND='Agg', VERIF_TIER='thorough',
                    PYTHONPATH=os.pathsep.join([bootstrap.VERIF, bootstrap.SRC, bootstrap.DEPS]))
        cmd = [sys.executable, '-W', 'ignore', '-m', 'pytest', os.path.join(repo_root, 'test'), '-q', '-p', 'no:cacheprovider',
               '-p', 'rv.pytest_contracts', '--timeout=900']
        procs.append(('repo-tests', out, subprocess.Popen(cmd, cwd=repo_root, env=env2, stdout=subprocess.PIPE,
                                                          stderr=subprocess.STDOUT)))
    for s, out, p in procs:
        try:
            stdout, _ = p.communicate(timeout=HARD_WATCHDOG[tier])
        except subprocess.TimeoutExpired:
            p.kill()
            ctx.flag_inconclusive('shard %s timed out' % s)
            continue
        if s == 'repo-tests':
            if not os.path.isfile(out):
                ctx.flag_inconclusive('repository tests under contracts produced no result: %s'
                                      % stdout.decode(errors='replace')[-300:])
                continue
            part = json.load(open(out))
            ctx.extra['repo_tests_under_contracts'] = {
                'pytest_exit': p.returncode, 'evaluations': part['evaluations'],
                'contracts': {k: v for k, v in part['counters'].items() if k.startswith('contract:')}}
            ctx.absorb(part)
            continue
        crash = ''
        try:
            crash = open(out + '.crash').read()
        except OSError:
            pass
        rc = p.returncode
        if rc is not None and (rc < 0 or rc in (132, 134, 135, 136, 139) or 'Fatal Python error' in crash):
            # the code under test killed the interpreter (SIGSEGV / SIGBUS / SIGABRT / SIGFPE ...)
            last = None
            try:
                last = json.load(open(out + '.case'))
            except Exception:
                pass
            if os.path.isfile(out):
                try:
                    ctx.absorb(json.load(open(out)))       # what the shard had observed before it died
                except Exception:
                    pass
            ctx.begin_case(last or {'shard': s}, nontrivial=True)
            ctx.fail('native-crash:the-interpreter-was-killed-while-running-this-case',
                     {'returncode': rc, 'python_traceback': crash[:1500], 'stdout': stdout.decode(errors='replace')[-300:]},
                     {'crash': True, 'signal': -rc if rc < 0 else rc - 128})
            ctx.end_case()
            continue
        if rc != 0 or not os.path.isfile(out):
            ctx.flag_inconclusive('shard %s exited %s: %s' %
                                  (s, rc, stdout.decode(errors='replace')[-300:]))
            continue
        ctx.absorb(json.load(open(out)))
    ctx.nshards = n
    try:
        final_guards(ctx, load_prop(pid))
    except Exception as exc:
        ctx.flag_inconclusive('final guards crashed: %r' % (exc,))
    import shutil
    shutil.rmtree(d, ignore_errors=True)
    return ctx.finish()


if __name__ == '__main__':
    sys.exit(main(sys.argv[1:]))
