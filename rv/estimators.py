"""The twelve PSD classes: how to draw in-domain parameters, how to construct
them from a descriptor, and how to read what they expose.  Used by the
paired-execution trace monitors (C02-C05, C08) and the history monitor (C07).
Nothing here judges anything.
"""
import numpy as np

from . import gen

CLASSES = ['Periodogram', 'pcorrelogram', 'pburg', 'pyule', 'pcovar', 'pmodcovar', 'parma', 'pma',
           'pminvar', 'pmusic', 'pev', 'MultiTapering']
AR_CLASSES = ['pburg', 'pyule', 'pcovar', 'pmodcovar', 'parma', 'pma']
WINDOWS_SAFE = ['hann', 'hamming', 'rectangular', 'blackman', 'bartlett', 'kaiser', 'tukey', 'parzen',
                'nuttall', 'gaussian', 'flattop', 'cosine', 'bohman', 'taylor', 'chebwin', 'lanczos', 'riesz',
                'riemann', 'poisson', 'cauchy', 'bartlett_hann', 'blackman_harris', 'blackman_nuttall',
                'poisson_hanning']
# relative tolerance for relations between two runs of the same estimator (DESIGN section 4)
REL_TOL = {'parma': 1e-5, 'pma': 1e-6}      # parma: modified Yule-Walker fits at the minimal lag are the worst conditioned (6e-6 observed)


def rel_tol(cls):
    return REL_TOL.get(cls, 1e-8)


def draw(rng, cls, N, tone=False):
    """In-domain constructor parameters for data of length N (a JSON-able dict)."""
    if cls == 'Periodogram':
        return {'window': gen.pick(rng, WINDOWS_SAFE)}
    if cls == 'pcorrelogram':
        return {'lag': int(rng.integers(max(2, N // 8), max(3, N // 2))), 'window': gen.pick(rng, WINDOWS_SAFE)}
    if cls == 'pburg':
        return {'order': int(rng.integers(1, min(N - 2, 12) + 1))}
    if cls == 'pyule':
        return {'order': int(rng.integers(1, min(N - 1, 12) + 1))}
    if cls in ('pcovar', 'pmodcovar'):
        return {'order': int(rng.integers(1, min(N // 3, 10) + 1))}
    if cls == 'parma':
        for _ in range(100):
            P = int(rng.integers(1, 8))
            Q = int(rng.integers(1, 6))
            lag = int(rng.integers(max(Q, 2 * P), max(Q, 2 * P) + 10))
            if lag < N and lag + 2 * P - Q <= N and 2 * Q < N - P:
                return {'P': P, 'Q': Q, 'lag': lag}
        return {'P': 1, 'Q': 1, 'lag': 2}
    if cls == 'pma':
        M = int(rng.integers(2, min(N - 1, 20) + 1))
        return {'Q': int(rng.integers(1, M)), 'M': M}
    if cls == 'pminvar':
        return {'order': int(rng.integers(2, min(N // 2, 10) + 1))}
    if cls in ('pmusic', 'pev'):
        P = int(rng.integers(3, min(N // 3, 12) + 1))
        return {'P': P, 'NSIG': int(rng.integers(1, P))}
    if cls == 'MultiTapering':
        NW = float(gen.pick(rng, [2, 2.5, 3, 4]))
        if NW >= N / 2.0:
            NW = 2.0
        return {'NW': NW, 'k': gen.pick(rng, [None, int(2 * NW) - 1, 2]),
                'method': gen.pick(rng, ['adapt', 'eigen', 'unity'])}
    raise ValueError(cls)


def min_nfft(cls, params, N):
    """Smallest admissible NFFT (property C05)."""
    if cls in ('Periodogram', 'MultiTapering'):
        return N
    if cls == 'pcorrelogram':
        return 2 * params['lag'] + 1
    if cls == 'pminvar':
        return 2 * params['order']
    if cls == 'parma':
        return max(params['P'], params['Q']) + 1
    if cls == 'pma':
        return params['Q'] + 1
    if cls in ('pmusic', 'pev'):
        return params['P'] + 1
    return params['order'] + 1


def build(cls, params, x, NFFT=None, fs=1.0, scale=False):
    import spectrum
    kw = {'NFFT': NFFT, 'sampling': fs, 'scale_by_freq': scale}
    if cls == 'Periodogram':
        return spectrum.Periodogram(x, window=params['window'], **kw)
    if cls == 'pcorrelogram':
        return spectrum.pcorrelogram(x, lag=params['lag'], window=params['window'], **kw)
    if cls == 'pburg':
        return spectrum.pburg(x, params['order'], criteria=params.get('criteria'), **kw)
    if cls == 'pyule':
        return spectrum.pyule(x, params['order'], **kw)
    if cls == 'pcovar':
        return spectrum.pcovar(x, params['order'], **kw)
    if cls == 'pmodcovar':
        return spectrum.pmodcovar(x, params['order'], **kw)
    if cls == 'parma':
        return spectrum.parma(x, params['P'], params['Q'], params['lag'], **kw)
    if cls == 'pma':
        return spectrum.pma(x, params['Q'], params['M'], **kw)
    if cls == 'pminvar':
        return spectrum.pminvar(x, params['order'], **kw)
    if cls == 'pmusic':
        return spectrum.pmusic(x, params['P'], NSIG=params.get('NSIG'), threshold=params.get('threshold'),
                               criteria=params.get('criteria', 'aic'), **kw)
    if cls == 'pev':
        return spectrum.pev(x, params['P'], NSIG=params.get('NSIG'), threshold=params.get('threshold'),
                            criteria=params.get('criteria', 'aic'), **kw)
    if cls == 'MultiTapering':
        return spectrum.MultiTapering(x, NW=params['NW'], k=params.get('k'), method=params.get('method', 'adapt'), **kw)
    raise ValueError(cls)


def exposed(p):
    """Model parameters / by-products the object exposes after a computation."""
    out = {}
    for name in ('ar', 'ma', 'rho', 'reflection', 'eigenvalues', 'weights'):
        v = getattr(p, name, None)
        if v is not None and not callable(v):
            try:
                out[name] = np.asarray(v)
            except Exception:
                pass
    return out


def halfwidth_real(cls, params, N, NFFT):
    """Main-lobe half-width in bins for the real-sinusoid clause of C02 (DESIGN section 6, C02)."""
    c = lambda v: int(np.ceil(v))
    if cls == 'Periodogram':
        return c(NFFT / N) + (1 if params.get('window') not in ('rectangular',) else 0)
    if cls == 'pcorrelogram':
        return c(NFFT / params['lag'])
    if cls in ('pburg', 'pcovar', 'pmodcovar'):
        return max(1, c(NFFT / N))
    if cls == 'pyule':
        return c(2.0 * NFFT / N)
    if cls == 'parma':
        # the AR part is fitted to `lag` correlation lags only: its resolution is NFFT/lag bins
        return max(c(2.0 * NFFT / N), c(float(NFFT) / params['lag']))
    if cls == 'pminvar':
        return c(NFFT / params['order'])
    if cls == 'MultiTapering':
        return c(params['NW'] * NFFT / N)
    if cls in ('pmusic', 'pev'):
        return 1
    return None


def tol_complex_tone(cls, params, N, NFFT):
    """Allowed distance in bins between the peak and the tone bin for an on-grid complex exponential."""
    if cls in ('Periodogram', 'pcorrelogram', 'pcovar', 'pmodcovar', 'pmusic', 'pev'):
        return 0
    if cls in ('pburg', 'pyule', 'parma', 'pminvar'):
        return 1
    if cls == 'MultiTapering':
        return int(np.ceil(params['NW'] * NFFT / N))
    return None


def build_reused(cls, params, x, NFFT=None, fs=1.0, scale=False, salt=0):
    """The same configuration reached through a *history*: an object of the class is first built on other
    data (the other real/complex kind when salt is odd, the same samples scaled otherwise), another sampling
    rate and - for the Fourier classes - another window; its PSD and frequency axis are read; then the target
    data, sampling, window, scale_by_freq and NFFT are assigned.  Used as an extra workload by the trace
    monitors: the estimate must not depend on how the object got to its attribute values (C07 is the property
    that says so; here it widens the executions the other oracles observe)."""
    x = np.asarray(x)
    N = len(x)
    r = np.random.default_rng(1000 + salt)
    want_complex = np.iscomplexobj(x) != bool(salt % 2)       # odd salt: the other kind of data first
    other = r.standard_normal(N) + 0.3 * np.cos(0.9 * np.arange(N))
    if want_complex:
        other = other + 1j * r.standard_normal(N)
    p0 = dict(params)
    if 'window' in p0:
        p0['window'] = 'bartlett' if params['window'] != 'bartlett' else 'hann'
    nf = NFFT if isinstance(NFFT, int) else N
    obj = build(cls, p0, other, NFFT=nf, fs=fs * 2.5 + 1.0, scale=not scale)
    _ = obj.psd
    _ = obj.frequencies()
    obj.data = np.array(x, copy=True)
    obj.sampling = fs
    if 'window' in params:
        obj.window = params['window']
    obj.scale_by_freq = scale
    if NFFT == 'nextpow2':
        obj.NFFT = 'nextpow2'
    if salt % 4 == 3:
        # ... and, on every fourth history, the estimate is computed, viewed in another layout and computed again by
        # an explicit call before the caller reads it
        _ = obj.psd
        obj.sides = 'centerdc'
        obj()
    return obj


MODEL_BASED = ('pburg', 'pyule', 'pcovar', 'pmodcovar', 'parma', 'pma', 'pminvar')


def cond_tol(cls, psd_ref, base):
    """Tolerance for a relation between two *separately fitted* model spectra.  A rounding difference d in the
    fitted coefficients moves |A(f)| by ~d, i.e. the spectrum by ~d/|A(f)| relatively: near a pole close to the
    unit circle (a sharp line) the two runs legitimately differ by sqrt(peak/typical level) times the base."""
    if cls not in MODEL_BASED:
        return base
    p = np.abs(np.asarray(psd_ref, dtype=float))
    p = p[np.isfinite(p) & (p > 0)]
    if p.size == 0:
        return base
    return base * max(1.0, float(np.sqrt(np.max(p) / np.median(p))))


def ill_conditioned_arma(ar, P):
    """A fitted AR part whose coefficients exceed what any stable polynomial of that order can have (|a_k| <=
    C(P, k)) comes from a numerically singular system: relations between two such fits are not meaningful."""
    from math import comb
    if ar is None:
        return False
    a = np.abs(np.asarray(ar))
    return bool(a.size and (not np.all(np.isfinite(a)) or float(np.max(a)) > 2.0 * comb(int(P), int(P) // 2)))
