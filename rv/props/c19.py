"""C19 — multitaper estimates are weighted means of tapered periodograms.

Contract on pmtm(): eigenspectra against numpy.fft of taper*data, eigenvalues,
weights per method.  A sys.monitoring frame probe at the exit of the adaptive
loop reads the last two spectrum iterates and checks that the returned weights
are Thomson's formula at the iterate they were computed from, that the data
power used is mean|x|^2 and that the loop stopped by its rule or at the cap.
The workload adds the MultiTapering class (mean over tapers, folding, real and
non-negative) and precomputed tapers (also reused twice).
"""
import numpy as np

from .. import install, refs, gen, reach
from ..install import ctx as _ctx
from ..bootstrap import smod

NEEDS_NATIVE = True
REPO_TESTS_UNDER_CONTRACTS = True
RULE = ('cases = (data kind, real/complex, N in 16..1024, NW in {1.5,2,2.5,3,3.5,4}, k in 1..floor(2NW), '
        'NFFT >= N even/odd or default, method in {unity, eigen, adapt}, function | class | precomputed '
        'tapers); non-trivial when k >= 2; distinct = distinct descriptor')
ASSUMPTIONS = ['tapers/eigenvalues are taken from the library\'s dpss (judged by C18); numpy.fft is the reference '
               'for the eigenspectra',
               'adaptive weights are judged at the iterate they were computed from (frame probe); without the probe '
               'a coarse fixed-point test is used instead',
               'weights bound [0, 1/lambda] is checked with slack 1e-9 (eigenvalues may exceed 1 by rounding)']
REQUIRED_ANCHORS = ('pmtm', 'MultiTapering.__call__')
_last_probe = {}


def _default_nfft(N):
    return max(256, 2 ** int(np.ceil(np.log2(N))))


def post_pmtm(x, NW, k, NFFT, e, v, method, result):
    c = _ctx()
    try:
        xa = np.asarray(x)
        ok = xa.ndim == 1 and len(xa) >= 8 and xa.dtype.kind in 'fciu' and np.all(np.isfinite(xa))
        if ok and xa.dtype.kind in 'iu':
            xa = xa.astype(float)          # the monitor's arithmetic is floating point whatever the storage type
    except Exception:
        ok = False
    if not ok or method not in ('adapt', 'eigen', 'unity'):
        return c.discard('pmtm:domain')
    N = len(xa)
    feats = {'fn': 'pmtm', 'method': method, 'cplx': bool(np.iscomplexobj(xa)), 'precomputed': e is not None}
    if e is not None and v is not None:
        tapers, lam = np.asarray(v), np.asarray(e)
    elif e is None and v is None and NW is not None:
        if not (1 <= float(NW) < N / 2.0):
            return c.discard('pmtm:NW-domain')
        try:
            tapers, lam = install.original('spectrum.mtm', 'dpss')(N, NW, k)
        except Exception:
            return c.discard('pmtm:dpss-failed')
    else:
        return c.discard('pmtm:domain')
    if tapers.shape[0] != N:
        return c.discard('pmtm:taper-shape-domain')
    nwin = tapers.shape[1]
    nfft = _default_nfft(N) if NFFT is None else int(NFFT)
    if nfft < N:
        return c.discard('pmtm:NFFT<N')
    try:
        Sk, w, lam_out = result
        Sk, w, lam_out = np.asarray(Sk), np.asarray(w), np.asarray(lam_out)
    except Exception:
        return c.fail('pmtm:returns-triple', {}, feats)
    det = {'N': N, 'NW': NW, 'k': nwin, 'NFFT': nfft}
    ref = np.fft.fft(tapers.T * xa, nfft)
    c.compare('pmtm:eigenspectra-are-DFT-of-taper*data', Sk, ref, 1e-10, feats,
              scale=float(np.max(np.abs(ref))) or 1.0, detail=det)
    c.compare('pmtm:eigenvalues-are-the-taper-eigenvalues', lam_out, lam, 1e-12, feats, scale=1.0, detail=det)
    if method == 'unity':
        c.compare('pmtm:unity-weights', w, np.ones((nwin, 1)), 0.0, feats, scale=1.0, detail=det)
    elif method == 'eigen':
        c.compare('pmtm:eigen-weights', w, (lam / (np.arange(nwin) + 1.0)).reshape(nwin, 1), 1e-12, feats,
                  scale=1.0, detail=det)
    else:
        if not c.require('pmtm:adapt-weights-shape', w.shape == (nfft, nwin), dict(det, shape=list(w.shape)), feats):
            return
        c.require('pmtm:adapt-weights-real', bool(np.isrealobj(w) and np.all(np.isfinite(w))),
                  dict(det, dtype=str(w.dtype)), feats)
        if np.isrealobj(w) and np.all(np.isfinite(w)):
            hi = 1.0 / np.minimum(lam, 1.0)
            c.require('pmtm:adapt-weights-in-[0,1/lambda]', bool(np.all(w >= -1e-12) and np.all(w <= hi * (1 + 1e-9))),
                      dict(det, min=float(np.min(w)), max=float(np.max(w))), feats)
            pr = _last_probe.pop('rec', None)
            if pr is not None and pr['wk'].shape == w.shape and np.array_equal(pr['wk'], w):
                c.count('adapt:weights-judged-at-probe')
            else:
                # these weights did not pass the probe at the loop exit (probe not installed, or this call left
                # by another path): coarse fixed-point test at the spectrum the weights imply
                c.count('adapt:weights-not-seen-by-the-probe')
                P = np.abs(ref.T) ** 2
                S = np.sum(w * P, axis=1) / np.sum(w, axis=1)
                if float(np.max(S)) > 100 * float(np.median(S)):
                    # large dynamic range: the stop rule bounds the mean change only, single low-power bins may be
                    # far from the fixed point (observed 0.2) - not judged without the probe
                    c.discard('adapt-fixed-point:dynamic-range-guard')
                else:
                    sig2 = float(np.mean(np.abs(xa.astype(complex)) ** 2))
                    b = S[:, None] / (S[:, None] * lam[None, :] + sig2 * (1 - lam[None, :]))
                    wf = b ** 2 * lam[None, :]
                    c.compare('pmtm:adapt-weights-fixed-point(coarse)', w, wf, 0.25, feats, scale=1.0, detail=det)


_PROBE_OK = [False]


def _probe_adapt(loc):
    """Runs at `weights = wk`, i.e. right after the adaptive loop."""
    c = _ctx()
    if c is None:
        return
    try:
        S, S1, wk, lam, sig2, Sk, i, tol, NFFT, x = (loc[n] for n in
                                                     ('S', 'S1', 'wk', 'eigenvalues', 'sig2', 'Sk', 'i', 'tol', 'NFFT', 'x'))
    except KeyError:
        return c.count('probe:pmtm-adapt:locals-missing')
    feats = {'fn': 'pmtm', 'method': 'adapt', 'cplx': bool(np.iscomplexobj(np.asarray(x))), 'probe': 'adapt-exit'}
    lam = np.asarray(lam, dtype=float)
    nwin = len(lam)
    xa = np.asarray(x).astype(complex)
    power = float(np.mean(np.abs(xa) ** 2))
    c.compare('probe:adapt-data-power-is-mean|x|^2', sig2, power, 1e-12, feats, scale=power or 1.0)
    c.count('adapt:iterations:%s' % ('cap' if i >= 100 else 'converged'))
    c.extra.setdefault('adapt_iterations_max', 0)
    c.extra['adapt_iterations_max'] = max(c.extra['adapt_iterations_max'], int(i))
    if i == 0:
        return
    S = np.asarray(S, dtype=float).reshape(-1)
    S1 = np.asarray(S1, dtype=float).reshape(-1)
    wk = np.asarray(wk)
    a = power * (1 - lam)

    def thomson(Sit):
        b = Sit[:, None] / (Sit[:, None] * lam[None, :] + a[None, :])
        return b ** 2 * lam[None, :]
    # the weights must be Thomson's formula at one of the last two spectrum iterates (the code computes them
    # from the iterate before the final update; computing them from the final one would satisfy the property too)
    wf1, wf0 = thomson(S1), thomson(S)
    wkr = np.asarray(wk, dtype=float) if np.isrealobj(wk) else np.asarray(wk)
    e1 = float(np.max(np.abs(wkr - wf1))) if wkr.shape == wf1.shape else np.inf
    e0 = float(np.max(np.abs(wkr - wf0))) if wkr.shape == wf0.shape else np.inf
    wf = wf1 if e1 <= e0 else wf0
    c.compare('probe:adapt-weights-are-Thomson-formula-at-their-iterate', wk, wf, 1e-9, feats, scale=1.0,
              detail={'iterations': int(i), 'NFFT': int(NFFT), 'k': nwin})
    P = np.asarray(Sk, dtype=float)
    if P.shape == wk.shape and e1 <= e0 and e1 <= 1e-9:
        Snew = np.sum(wk * P, axis=1) / np.sum(wk, axis=1)
        c.compare('probe:adapt-spectrum-is-weighted-mean-of-eigenspectra', S, Snew, 1e-9, feats,
                  scale=float(np.max(np.abs(Snew))) or 1.0)
    # "converged" in a scale-free sense: the last update changed the spectrum by less than 0.1 % of its mean level
    # (the code's own rule, mean|S-S1| <= 0.0005 sigma^2/NFFT, is NFFT times stricter than that)
    change = float(np.mean(np.abs(S - S1)))
    level = float(np.mean(np.abs(S)))
    c.err('probe:adapt-last-change/mean-level', change / level if level > 0 else 0.0)
    c.require('probe:adapt-loop-ended-converged-or-at-cap', bool(change <= 1e-3 * level or i >= 100),
              {'iterations': int(i), 'mean_change': change, 'mean_level': level}, feats)
    _last_probe['rec'] = {'wk': np.array(wk, copy=True)}


def setup(c):
    m = smod('mtm')
    reach.watch(c, {'pmtm': m.pmtm, 'MultiTapering.__call__': m.MultiTapering.__call__, 'dpss': m.dpss})
    _PROBE_OK[0] = reach.probe('pmtm-adapt-exit', m.pmtm, 'weights = wk', _probe_adapt)
    install.contract('spectrum.mtm', 'pmtm', post_pmtm)


KINDS = ['noise', 'tones', 'ar', 'trend', 'dyn', 'int']
NWS = [1.5, 2, 2.5, 3, 3.5, 4, 1.8, 2.3, 2.75, 3.3]      # incl. values whose 2*NW is not an integer (default k = round(2 NW))


def cases(c):
    rng = c.rng('cases')
    out = []
    for method in ('unity', 'eigen', 'adapt'):
        for cplx in (0, 1):
            for (N, NW, k, NFFT) in [(16, 1.5, 1, 16), (16, 1.5, 3, 17), (33, 2.5, 5, 33), (64, 4, 8, None),
                                     (50, 2, 2, 128), (31, 3.5, 7, 63)]:
                out.append({'form': 'function', 'N': N, 'NW': NW, 'k': k, 'NFFT': NFFT, 'method': method,
                            'cplx': cplx, 'kind': 'tones', 'directed': True})
                out.append({'form': 'class', 'N': N, 'NW': NW, 'k': k, 'NFFT': NFFT, 'method': method,
                            'cplx': cplx, 'kind': 'tones', 'directed': True})
    # wide bandwidths: the leading concentration ratios tie at rounding level (1 - 1e-15), the supplied order must be kept
    for (N, NW, k) in [(512, 8, 16), (256, 7.5, 15), (1024, 8, 12)]:
        for method in ('unity', 'eigen', 'adapt'):
            out.append({'form': 'precomputed', 'N': N, 'NW': NW, 'k': k, 'NFFT': N, 'method': method, 'cplx': int(N == 256),
                        'kind': 'noise', 'directed': N == 512})
    for i in range(900 if c.tier == 'quick' else 168000):
        N = int(rng.integers(16, 1025 if i % 6 == 0 else 160))
        NW = float(gen.pick(rng, NWS))
        k = gen.pick(rng, [None, 1, int(2 * NW), int(rng.integers(1, int(2 * NW) + 1))])
        NFFT = gen.pick(rng, [None, N, N + 1, 2 * N, 2 * N + 1, gen.next_prime(N + 2)])
        out.append({'form': gen.pick(rng, ['function', 'class', 'class', 'precomputed']), 'N': N, 'NW': NW, 'k': k,
                    'NFFT': NFFT, 'method': gen.pick(rng, ['unity', 'eigen', 'adapt', 'adapt']),
                    'cplx': int(rng.integers(0, 2)), 'kind': gen.pick(rng, KINDS), 'i': i})
        if i % 7 == 2 and not out[-1]['cplx']:
            out[-1]['variant'] = gen.NARROW[(i // 7) % len(gen.NARROW)]          # wav / ADC samples in a narrow integer type
        gen.layout_variant(out[-1], i)
    return out


def run_case(c, d):
    import spectrum
    m = smod('mtm')
    N, NW, k, NFFT, method, cplx = d['N'], d['NW'], d['k'], d['NFFT'], d['method'], bool(d['cplx'])
    x = gen.data({'kind': d['kind'], 'N': N, 'cplx': cplx, 'variant': d.get('variant')}, c.rng(d, 'x'))
    if np.asarray(x).dtype.kind == 'i' and not d.get('variant'):
        x = x.astype(float)
    kk = k if k is not None else max(1, int(min(round(2 * NW), N)))
    c.set_nontrivial(kk >= 2)
    feats = {'method': method, 'cplx': cplx, 'form': d['form']}
    pristine = np.array(x, copy=True)
    try:
        res = spectrum.pmtm(x, NW=NW, k=k, NFFT=NFFT, method=method)
    except Exception as exc:
        c.exception('pmtm', exc, feats)
        return
    c.require('pmtm:input-not-modified', np.array_equal(x, pristine), {}, feats)
    if d['form'] == 'function':
        return
    Skc, w, lam = res
    nfft_f = Skc.shape[1]
    if d['form'] == 'precomputed':
        try:
            v, e = spectrum.dpss(N, NW, k)
        except Exception as exc:
            c.exception('dpss', exc, feats)
            return
        if d.get('i', 0) % 2:
            # tapers that went through the caller's own storage: a C-contiguous copy (np.save / loadtxt / .copy())
            v, e = np.ascontiguousarray(np.array(v, copy=True)), np.array(e, copy=True)
        e0, v0 = np.array(e, copy=True), np.array(v, copy=True)
        for rep in (1, 2):                       # the same precomputed arrays, reused
            try:
                r2 = spectrum.pmtm(x, NFFT=NFFT, e=e, v=v, method=method)
            except Exception as exc:
                c.exception('pmtm', exc, dict(feats, precomputed=True))
                return
            c.compare('precomputed:same-eigenspectra', np.asarray(r2[0]), np.asarray(Skc), 1e-12, feats,
                      scale=float(np.max(np.abs(Skc))) or 1.0, detail={'use': rep})
            c.compare('precomputed:same-weights', np.asarray(r2[1], dtype=float), np.asarray(w, dtype=float), 1e-9, feats,
                      scale=1.0, detail={'use': rep})
            c.compare('precomputed:same-eigenvalues', np.asarray(r2[2]), np.asarray(lam), 1e-12, feats, scale=1.0,
                      detail={'use': rep})
            c.require('precomputed:caller-arrays-not-modified', np.array_equal(e, e0) and np.array_equal(v, v0),
                      {'use': rep}, feats)
        return
    # class: mean over tapers of weight * |eigenspectrum|^2, folded for real data
    NFFTc = NFFT
    try:
        p = spectrum.MultiTapering(x, NW=NW, k=k, NFFT=NFFTc, method=method, scale_by_freq=False)
        psd = np.asarray(p.psd)
        nfft = p.NFFT
        fr = p.frequencies()
    except Exception as exc:
        c.exception('MultiTapering', exc, feats)
        return
    try:
        Skc2, w2, lam2 = spectrum.pmtm(x, NW=NW, k=k, NFFT=nfft, method=method)
    except Exception as exc:
        c.exception('pmtm', exc, feats)
        return
    P = np.abs(np.asarray(Skc2)) ** 2                       # (k, NFFT)
    w2 = np.asarray(w2, dtype=float)
    if method == 'adapt':
        full = np.mean(P.T * w2, axis=1)
    else:
        full = np.mean(P * w2, axis=0)
    f2 = dict(feats, cls='MultiTapering')
    c.require('MultiTapering:psd-real-non-negative', bool(np.isrealobj(psd) and np.all(np.isfinite(psd)) and np.all(psd >= 0)),
              {'dtype': str(psd.dtype), 'min': float(np.min(psd.real))}, f2)
    if cplx:
        c.compare('MultiTapering:psd-is-mean-of-weighted-eigenspectra', psd, full, 1e-10, f2,
                  scale=float(np.max(full)) or 1.0, detail={'NFFT': nfft})
    else:
        L = refs.onesided_len(nfft)
        if c.require('MultiTapering:folded-length', psd.shape == (L,), {'len': list(psd.shape), 'NFFT': nfft}, f2):
            c.compare('MultiTapering:psd-is-2x-first-half-of-mean-of-weighted-eigenspectra', psd, 2 * full[:L], 1e-10, f2,
                      scale=float(np.max(full)) or 1.0, detail={'NFFT': nfft})
    c.require('MultiTapering:one-value-per-frequency', len(fr) == len(psd), {'freqs': len(fr), 'psd': len(psd)}, f2)
    # history: other taper parameters assigned to the evaluated object, followed by an explicit computation
    if d.get('i', 0) % 2 == 0 and N >= 24:
        NW2 = 2.0 if NW != 2.0 else 3.0
        k2 = 3
        try:
            p.NW = NW2
            p.k = k2
            p()
            psd2 = np.asarray(p.psd)
            Sk3, w3, lam3 = spectrum.pmtm(x, NW=NW2, k=k2, NFFT=nfft, method=method)
        except Exception as exc:
            c.exception('MultiTapering', exc, dict(f2, step='NW-k-reassigned'))
            return
        P3 = np.abs(np.asarray(Sk3)) ** 2
        w3 = np.asarray(w3, dtype=float)
        full3 = np.mean(P3.T * w3, axis=1) if method == 'adapt' else np.mean(P3 * w3, axis=0)
        ref3 = full3 if cplx else 2 * full3[:refs.onesided_len(nfft)]
        c.compare('MultiTapering:recomputed-with-new-NW-and-k', psd2, ref3, 1e-10, f2, scale=float(np.max(ref3)) or 1.0,
                  detail={'NW': NW2, 'k': k2, 'NFFT': nfft})


def finish(c):
    install.require_evaluated(c, ['mtm.pmtm'])
    if _PROBE_OK[0] is False and c.nshards == 1:
        c.extra['probe_missing'] = 'pmtm-adapt-exit'
