"""C14 — covariance / modified-covariance AR fits are least-squares optimal.

Contracts on arcovar, modcovar, arcovar_marple, modcovar_marple judge every
call (also the internal ones made by arma_estimate and the classes) against
data matrices built by the monitor from x itself: normal equations, minimum
error, agreement of the fast recursions with least squares.  The workload
adds exact recovery of noiseless exponentials.
"""
import numpy as np

from .. import install, refs, gen, reach
from ..install import ctx as _ctx

REPO_TESTS_UNDER_CONTRACTS = True
RULE = ('cases = (data kind in {noise, tones in noise, ar, int, exact exponentials}, real/complex, '
        'N in 6..128, order in 1..min(N/2,20) incl. the square system N-p = p); non-trivial when '
        'order >= 2; distinct = distinct descriptor')
ASSUMPTIONS = ['data matrices built by the monitor from x (not by corrmtx)',
               'orthogonality / minimum judged relative to ||x||^2 (the minimum itself may be 0)',
               'Marple recursions compared with least squares only when cond(data matrix) <= 1e3 '
               '(they solve the normal equations, error ~ eps*cond^2); exact recovery guarded by cond <= 1e6']
REQUIRED_ANCHORS = ('arcovar', 'modcovar', 'arcovar_marple', 'modcovar_marple')


def _ok(x, order):
    try:
        xa = np.asarray(x)
        order = int(order)
        return xa.ndim == 1 and xa.dtype.kind in 'fciu' and np.all(np.isfinite(xa)) and np.any(xa) and \
            1 <= order and len(xa) - order >= order
    except Exception:
        return False


def ls_fit(x, p, method):
    D = refs.data_matrix(np.asarray(x).astype(complex if np.iscomplexobj(x) else float), p, method)
    A, b = D[:, 1:], D[:, 0]
    sol = np.linalg.lstsq(A, -b, rcond=None)
    a = sol[0]
    sv = sol[3]
    cond = float(sv[0] / sv[-1]) if sv[-1] > 0 else np.inf
    res = b + A @ a
    return D, a, float(np.real(np.vdot(res, res))), cond


def judge_ls(c, tag, x, p, method, a, e, feats):
    feats = dict(feats, dtype=np.asarray(x).dtype.name)
    D, a_ls, emin, cond = ls_fit(x, p, method)
    A, b = D[:, 1:], D[:, 0]
    a = np.asarray(a)
    if a.shape != (p,):
        c.fail('%s:length' % tag, {'len': list(a.shape), 'order': p}, feats)
        return None
    if not np.isfinite(cond) or cond > 1e10:
        c.discard('%s:rank-deficient-data-matrix' % tag)
        return None
    res = b + A @ a
    nb = float(np.linalg.norm(b))
    nA = float(np.linalg.norm(A))
    g = np.conj(A.T) @ res
    c.compare('%s:residual-orthogonal-to-regressors' % tag, g, np.zeros_like(g), 1e-9 * max(1.0, cond), feats,
              scale=max(nA * nb, 1e-300), detail={'N': len(x), 'order': p, 'cond': cond})
    energy = float(np.real(np.vdot(res, res)))
    # rounding of the error energy is relative to the energies that enter it: the target column and the regressors
    scale = max(nb ** 2, nA ** 2 / max(1, A.shape[1]), 1e-300)
    if e is not None:
        c.compare('%s:returned-error-is-the-residual-energy' % tag, e, energy, 1e-9 * max(1.0, cond), feats, scale=scale,
                  detail={'N': len(x), 'order': p, 'cond': cond})
        c.compare('%s:returned-error-is-the-minimum' % tag, e, emin, 1e-9 * max(1.0, cond), feats, scale=scale,
                  detail={'N': len(x), 'order': p, 'cond': cond})
    if np.isrealobj(np.asarray(x)) and a.dtype.kind == 'c':
        c.require('%s:real-data-real-coefficients' % tag,
                  bool(np.max(np.abs(a.imag)) <= 1e-10 * (1 + np.max(np.abs(a)))), {'a': a[:4]}, feats)
    return a_ls, emin, cond


def post_arcovar(x, order, result):
    c = _ctx()
    if not _ok(x, order):
        return c.discard('arcovar:domain(N-p>=p)')
    feats = {'fn': 'arcovar', 'cplx': bool(np.iscomplexobj(np.asarray(x)))}
    try:
        a, e = result
    except Exception:
        return c.fail('arcovar:returns-pair', {}, feats)
    judge_ls(c, 'arcovar', np.asarray(x), int(order), 'covariance', a, e, feats)


def post_modcovar(x, order, result):
    c = _ctx()
    if not _ok(x, order):
        return c.discard('modcovar:domain(N-p>=p)')
    feats = {'fn': 'modcovar', 'cplx': bool(np.iscomplexobj(np.asarray(x)))}
    try:
        a, e = result
    except Exception:
        return c.fail('modcovar:returns-pair', {}, feats)
    judge_ls(c, 'modcovar', np.asarray(x), int(order), 'modified', a, e, feats)


def judge_marple(c, tag, x, p, method, coef, pvar, norm, feats):
    N = len(x)
    coef = np.asarray(coef)
    D, a_ls, emin, cond = ls_fit(x, p, method)
    if len(coef) < p:
        return c.fail('%s:length' % tag, {'len': len(coef), 'order': p}, feats)
    if not np.isfinite(cond) or cond > 1e3:
        return c.discard('%s:cond-guard(>1e3)' % tag)
    tol = 1e-9 * cond ** 2
    c.compare('%s:coefficients-equal-least-squares' % tag, coef[:p], a_ls, tol, feats,
              scale=1 + float(np.max(np.abs(a_ls))), detail={'N': N, 'order': p, 'cond': cond})
    c.compare('%s:trailing-entries-zero' % tag, coef[p:], np.zeros(len(coef) - p), 0.0, feats, scale=1.0)
    nb2 = float(np.linalg.norm(D[:, 0])) ** 2
    c.compare('%s:variance-is-minimum-per-sample' % tag, pvar, emin / norm, tol, feats,
              scale=max(nb2 / norm, float(np.linalg.norm(D[:, 1:])) ** 2 / (max(1, p) * norm), 1e-300),
              detail={'N': N, 'order': p, 'cond': cond})


def post_arcovar_marple(x, order, result):
    c = _ctx()
    if not _ok(x, order):
        return c.discard('arcovar_marple:domain(N-p>=p)')
    xa = np.asarray(x)
    p = int(order)
    feats = {'fn': 'arcovar_marple', 'cplx': bool(np.iscomplexobj(xa))}
    try:
        af, pf, ab, pb, pbv = result
    except Exception:
        return c.fail('arcovar_marple:returns-5-tuple', {}, feats)
    judge_marple(c, 'arcovar_marple', xa, p, 'covariance', af, pf, float(len(xa) - p), feats)


def post_modcovar_marple(X, IP, result):
    c = _ctx()
    if not _ok(X, IP):
        return c.discard('modcovar_marple:domain(N-p>=p)')
    xa = np.asarray(X)
    p = int(IP)
    feats = {'fn': 'modcovar_marple', 'cplx': bool(np.iscomplexobj(xa))}
    try:
        A, P, Pv = result
    except Exception:
        return c.fail('modcovar_marple:returns-triple', {}, feats)
    judge_marple(c, 'modcovar_marple', xa, p, 'modified', A, P, 2.0 * (len(xa) - p), feats)


def setup(c):
    from ..bootstrap import smod
    reach.watch(c, {'arcovar': smod('covar').arcovar, 'modcovar': smod('modcovar').modcovar,
                    'arcovar_marple': smod('covar').arcovar_marple,
                    'modcovar_marple': smod('modcovar').modcovar_marple,
                    'corrmtx': smod('linalg').corrmtx})
    install.contract('spectrum.covar', 'arcovar', post_arcovar)
    install.contract('spectrum.modcovar', 'modcovar', post_modcovar)
    install.contract('spectrum.covar', 'arcovar_marple', post_arcovar_marple)
    install.contract('spectrum.modcovar', 'modcovar_marple', post_modcovar_marple)


KINDS = ['noise', 'tones', 'ar', 'int', 'trend']


def cases(c):
    rng = c.rng('cases')
    out = []
    for N in (6, 7, 8, 16, 40):
        for p in sorted(set([1, 2, N // 4, N // 2])):
            if 1 <= p <= min(N // 2, 20):
                for cplx in (0, 1):
                    out.append({'N': N, 'p': p, 'cplx': cplx, 'kind': 'noise', 'directed': True})
    for i in range(1200 if c.tier == 'quick' else 216000):
        N = int(rng.integers(6, 129 if i % 3 == 0 else 48))
        out.append({'N': N, 'p': int(rng.integers(1, min(N // 2, 20) + 1)), 'cplx': int(rng.integers(0, 2)),
                    'kind': gen.pick(rng, KINDS), 'amp10': int(gen.pick(rng, [0, 0, 0, -3, -6, 3, 5, 6])), 'i': i})
        if i % 7 == 2 and not out[-1]['cplx']:
            out[-1].update(variant=gen.NARROW[(i // 7) % len(gen.NARROW)], amp10=0)     # wav / ADC samples
        if not out[-1].get('amp10'):
            gen.layout_variant(out[-1], i)
    # noiseless sums of p exponentials on an NFFT grid
    for i in range(200 if c.tier == 'quick' else 60000):
        p = int(rng.integers(1, 9))
        cplx = int(rng.integers(0, 2))
        if not cplx and p % 2:
            p += 1
        N = int(rng.integers(max(6, 3 * p), 97))
        grid = 64
        half = p if cplx else p // 2
        lo, hi = (-grid // 2 + 1, grid // 2) if cplx else (2, grid // 2 - 1)
        bins = sorted(int(b) for b in rng.choice(np.arange(lo, hi, 3), size=half, replace=False))
        out.append({'N': N, 'p': p, 'cplx': cplx, 'kind': 'exact', 'grid': grid, 'bins': bins, 'i': i})
    # noiseless sums of p closely spaced exponentials (spacing 0.008..0.03 cycles/sample): ill-conditioned data
    # matrices (cond 1e2..1e10) with a zero residual, where a least-squares solver (error ~ eps*cond) and a
    # normal-equation or rank-truncating one (eps*cond^2, O(1)) part company
    for i in range(600 if c.tier == 'quick' else 60000):
        cplx = int(rng.integers(0, 2))
        p = int(rng.integers(2, 11))
        if not cplx and p % 2:
            p += 1
        N = int(rng.integers(max(2 * p + 2, 16), 129))
        out.append({'N': N, 'p': p, 'cplx': cplx, 'kind': 'cluster', 'sp1e4': int(rng.integers(80, 300)), 'i': i})
    return out


def cluster(d, rng):
    """(samples, exact prediction polynomial) of a noiseless sum of closely spaced exponentials."""
    N, p, cplx = d['N'], d['p'], bool(d['cplx'])
    K = p if cplx else p // 2
    sp = d['sp1e4'] * 1e-4
    f0 = rng.uniform(-0.45, 0.45 - sp * 1.2 * K) if cplx else rng.uniform(0.03, 0.47 - sp * 1.2 * K)
    f = f0 + sp * np.arange(K) * rng.uniform(0.8, 1.2, K)
    n = np.arange(N)
    x = np.zeros(N, dtype=complex)
    for ff in f:
        x = x + rng.uniform(0.5, 2.0) * np.exp(1j * (2 * np.pi * ff * n + rng.uniform(0, 2 * np.pi)))
    if not cplx:
        x = 2 * x.real
        f = np.concatenate([f, -f])
    return x, np.poly(np.exp(2j * np.pi * f))[1:]


def run_case(c, d):
    import spectrum
    N, p, cplx = d['N'], d['p'], bool(d['cplx'])
    truth = None
    if d['kind'] == 'cluster':
        x, truth = cluster(d, c.rng(d, 'x'))
    else:
        dd = {'kind': d['kind'], 'N': N, 'cplx': cplx, 'variant': d.get('variant')}
        if d['kind'] == 'exact':
            dd.update(grid=d['grid'], bins=d['bins'])
        x = gen.data(dd, c.rng(d, 'x'))
    if np.asarray(x).dtype.kind == 'i' and not d.get('variant') and (d.get('amp10') or d.get('i', 0) % 2):
        x = x.astype(float)                 # otherwise the samples stay int64
    if d.get('amp10'):
        x = x * 10.0 ** d['amp10']
    c.set_nontrivial(p >= 2)
    feats = {'cplx': cplx}
    res = {}
    for name, fn, args in (('arcovar', spectrum.arcovar, (x, p)), ('modcovar', spectrum.modcovar, (x, p)),
                           ('arcovar_marple', spectrum.arcovar_marple, (x, p)),
                           ('modcovar_marple', spectrum.modcovar_marple, (x, p))):
        if d['kind'] in ('exact', 'cluster') and name.endswith('marple'):
            continue      # the recursions divide by the (zero) error of an exact fit
        try:
            res[name] = fn(*args)
        except Exception as exc:
            c.exception(name, exc, dict(feats, fn=name))
    if res and d.get('i', 0) % 3 == 0 and d['kind'] not in ('exact', 'cluster'):
        kept = {n: [np.array(v, copy=True) for v in r[:2] if isinstance(v, np.ndarray)] for n, r in res.items()}
        other = gen.noise(c.rng(d, 'other'), N, cplx)
        for name in list(res):
            try:
                getattr(spectrum, name)(other, p)
            except Exception:
                continue
        for name, arrs in kept.items():
            now = [v for v in res[name][:2] if isinstance(v, np.ndarray)]
            c.require('%s:earlier-result-unchanged-by-a-later-call' % name,
                      all(np.array_equal(a, b, equal_nan=True) for a, b in zip(now, arrs)), {'N': N, 'order': p}, dict(feats, fn=name))
    if d['kind'] == 'cluster' or (d['kind'] == 'exact' and len(d['bins']) * (1 if cplx else 2) == p):
        if truth is None:
            bins = d['bins'] if cplx else sorted(d['bins'] + [-b for b in d['bins']])
            truth = np.poly(np.exp(2j * np.pi * np.array(bins) / d['grid']))[1:]
        for name, method in (('arcovar', 'covariance'), ('modcovar', 'modified')):
            if name not in res:
                continue
            cond = ls_fit(x, p, method)[3]
            if not np.isfinite(cond) or cond > 1e10:
                c.discard('%s:exact-coefficients:cond-guard(>1e10)' % name)
                continue
            # a backward-stable least-squares solution of a zero-residual problem is within ~eps*cond of the exact
            # polynomial (measured on the unchanged tree: <= 2 eps cond over 5500 cases); allowance 200 eps cond
            a = np.asarray(res[name][0])
            c.compare('%s:exact-data-gives-the-exact-prediction-polynomial' % name, a,
                      truth if np.iscomplexobj(a) else truth.real, 200 * 2.3e-16 * max(cond, 1.0) + 1e-13,
                      dict(feats, fn=name, kind=d['kind']), scale=1 + float(np.max(np.abs(truth))),
                      detail={'N': N, 'order': p, 'cond': cond})
    if d['kind'] == 'cluster':
        return
    if d['kind'] == 'exact':
        cond = ls_fit(x, p, 'covariance')[3]
        if cond > 1e6:
            c.discard('exact-recovery:cond-guard')
            return
        bins = d['bins'] if cplx else sorted(d['bins'] + [-b for b in d['bins']])
        want = np.exp(2j * np.pi * np.array(bins) / d['grid'])
        for name in ('arcovar', 'modcovar'):
            if name not in res:
                continue
            a = np.asarray(res[name][0])
            rt = np.roots(np.concatenate([[1.0], a]))
            if len(rt) != len(want):
                c.fail('%s:exact-recovery' % name, {'roots': len(rt), 'want': len(want)}, dict(feats, fn=name))
                continue
            dist = max(np.min(np.abs(rt - w)) for w in want)
            c.err('%s:exact-recovery' % name, dist)
            c.require('%s:exact-recovery' % name, dist <= 1e-8 * max(1.0, cond),
                      {'max_root_distance': float(dist), 'cond': cond, 'bins': bins}, dict(feats, fn=name))
    else:
        # repeat evaluation on the same array
        try:
            again = spectrum.arcovar(x, p)
            if 'arcovar' in res:
                c.compare('arcovar:repeat-evaluation', np.asarray(again[0]), np.asarray(res['arcovar'][0]), 0.0,
                          dict(feats, fn='arcovar'), scale=1.0)
        except Exception as exc:
            c.exception('arcovar', exc, dict(feats, fn='arcovar'))


def finish(c):
    install.require_evaluated(c, ['covar.arcovar', 'modcovar.modcovar', 'covar.arcovar_marple',
                                  'modcovar.modcovar_marple'])
