"""C07 — the PSD attribute is never stale.

History monitor with an executable reference model.  A driver applies a
sequence of operations (attribute assignments, explicit calls, reads) to one
live estimator object; at every read the observer compares what the object
returns with a freshly constructed object of the same class that was given the
attribute values assigned so far (the monitor tracks them itself, with
pristine copies of the data), computed once, and given the `sides` assignments
the live object received since its last recomputation.  Recomputations of the
live object are observed with a sys.monitoring counter on the class's __call__.
Abstract states (class, datatype, modified flag, cache empty?, sides, NFFT
parity, scale_by_freq) and (state, op) transitions visited are reported.
"""
import itertools

import numpy as np

from .. import gen, reach, refs, estimators as E
from ..bootstrap import smod

NEEDS_NATIVE = True
RULE = ('histories = sequences over an alphabet of ~25 operations (assign data in {real A, real B of another length, '
        'complex C}; NFFT in {even, odd, nextpow2, same}; sampling; window; lag; detrend; scale_by_freq; sides; '
        'ar_order / ma_order; explicit call; reads of psd / df / frequencies()) applied to a live object of each of the '
        '12 classes; exhaustive over all sequences of length <= 2 (quick) / <= 3 (thorough) after an initial computation, '
        'random sequences of length 4..12 beyond; a history is non-trivial when it contains at least one assignment '
        'after a computation; distinct = distinct descriptor')
ASSUMPTIONS = ['the reference is the class itself on the history-free path (construct, compute, assign sides)',
               'the monitor tracks the assigned values itself; data are pristine copies, never read back from the object',
               'assigning onesided while the data are complex is outside the domain (documented as forbidden)',
               'histories on which the freshly constructed reference itself raises are discarded (counted)']
REQUIRED_ANCHORS = ('Spectrum._getPSD', 'Spectrum._setSides', 'Spectrum._setNFFT', 'Spectrum._setData')

DATA = {}
CPLX = ('C', 'Az')          # names of the complex-typed records


def _is_cplx(name):
    return name.rstrip('+') in CPLX          # 'X+' = record X after an in-place edit of its first sample
_TR = set()
FOURIER = ('Periodogram', 'pcorrelogram')
INIT = {
    'Periodogram': {'window': 'hann'},
    'pcorrelogram': {'lag': 6, 'window': 'hamming'},
    'pburg': {'order': 3}, 'pyule': {'order': 3}, 'pcovar': {'order': 3}, 'pmodcovar': {'order': 3},
    'parma': {'P': 3, 'Q': 2, 'lag': 12}, 'pma': {'Q': 2, 'M': 8}, 'pminvar': {'order': 3},
    'pmusic': {'P': 4, 'NSIG': 2}, 'pev': {'P': 4, 'NSIG': 2},
    'MultiTapering': {'NW': 2.5, 'k': 4, 'method': 'eigen'},
}


def alphabet(cls):
    ops = [('data', 'A'), ('data', 'B'), ('data', 'C'), ('data', 'Az'), ('data', 'inplace'),
           ('NFFT', 40), ('NFFT', 41), ('NFFT', 'nextpow2'), ('NFFT', 'same'), ('NFFT', 'none'), ('data', 'Alist'),
           ('sampling', 2.5), ('sampling', 'same'),
           ('scale_by_freq', True), ('scale_by_freq', False),
           ('sides', 'onesided'), ('sides', 'twosided'), ('sides', 'centerdc'), ('sides', 'same'),
           ('detrend', 'mean'), ('call', None), ('read', 'psd'), ('read', 'df'), ('read', 'frequencies'),
           ('read', 'converted:twosided'), ('read', 'converted:centerdc'), ('read', 'converted:onesided'),
           ('plot', 'norm'), ('plot', 'centerdc')]
    if cls in FOURIER:
        ops += [('window', 'hamming'), ('window', 'hann'), ('window', 'same')]
    if cls == 'pcorrelogram':
        ops += [('lag', 8), ('lag', 'same'), ('lag', 40)]
    if cls == 'parma':
        ops += [('lag', 14), ('lag', 40)]
    if cls in ('pburg', 'pyule', 'pcovar', 'pmodcovar', 'pminvar', 'parma', 'pmusic', 'pev'):
        # 40 exceeds every record length used here: the estimate cannot be computed until another value is assigned
        ops += [('ar_order', 5), ('ar_order', 'same'), ('ar_order', 40)]
        if cls != 'pminvar':            # minvar() insists on a builtin int (errors.is_positive_integer)
            ops += [('ar_order', 'np6')]
    if cls == 'pma':
        ops += [('ar_order', 10), ('ma_order', 3)]
    if cls == 'parma':
        ops += [('ma_order', 3)]
    if cls == 'MultiTapering':
        # NW / k are plain attributes (outside the property's list): they are assigned together with an explicit
        # computation, after which the estimate must be that of the new value
        ops += [('NW+call', 3.0), ('k+call', 3)]
    return ops


def setup(c):
    psd = smod('psd')
    anchors = {'Spectrum._getPSD': psd.Spectrum._getPSD, 'Spectrum._setSides': psd.Spectrum._setSides,
               'Spectrum._setNFFT': psd.Spectrum._setNFFT, 'Spectrum._setData': psd.Spectrum._setData,
               'Spectrum._setSampling': psd.Spectrum._setSampling, 'Spectrum._setScale': psd.Spectrum._setScale,
               'FourierSpectrum._set_window': psd.FourierSpectrum._set_window,
               'ParametricSpectrum._set_ar_order': psd.ParametricSpectrum._set_ar_order}
    import spectrum
    for cls in E.CLASSES:
        anchors['__call__:' + cls] = getattr(spectrum, cls).__call__
    reach.watch(c, anchors)
    reach.cover(c, {'Spectrum._setNFFT': psd.Spectrum._setNFFT, 'Spectrum._setSides': psd.Spectrum._setSides,
                    'Spectrum._getPSD': psd.Spectrum._getPSD, 'Spectrum._setPSD': psd.Spectrum._setPSD,
                    'Spectrum._setData': psd.Spectrum._setData, 'Spectrum.get_converted_psd': psd.Spectrum.get_converted_psd})
    c.extra['abstract_states'] = []
    c.extra['transitions_seen'] = []
    rng = c.rng('data')
    DATA['A'] = gen.data({'kind': 'ar', 'N': 32, 'cplx': False, 'p': 3}, rng)
    DATA['B'] = gen.data({'kind': 'tones', 'N': 24, 'cplx': False, 'K': 2}, rng)
    DATA['C'] = gen.data({'kind': 'ar', 'N': 32, 'cplx': True, 'p': 3}, rng)
    DATA['Az'] = DATA['A'].astype(complex)       # the samples of A declared complex (imaginary part exactly zero)


def calls_of(cls):
    for code, (lab, n) in reach._state['reach'].items():
        if lab == '__call__:' + cls:
            return n
    return 0


def cases(c):
    rng = c.rng('cases')
    out = []
    maxlen = 2 if c.tier == 'quick' else 3
    for cls in E.CLASSES:
        ops = alphabet(cls)
        for start in ('A', 'C'):
            for n in range(1, maxlen + 1):
                seqs = list(itertools.product(range(len(ops)), repeat=n))
                if n == 3:
                    seqs = [s for s in seqs if (s[0] * 7 + s[1] * 3 + s[2]) % 5 == 0]      # 1/5 of the cube
                elif n == 2 and c.tier == 'quick' and start == 'C':
                    seqs = seqs[::3]
                for s in seqs:
                    out.append({'cls': cls, 'start': start, 'ops': [list(ops[i]) for i in s], 'exhaustive': n,
                                'directed': n == 1})
                if start == 'A' and n <= 2:
                    # the same histories on an object whose PSD was never computed (empty cache)
                    for s in (seqs if n == 1 else seqs[::4]):
                        out.append({'cls': cls, 'start': start, 'ops': [list(ops[i]) for i in s], 'exhaustive': n,
                                    'fresh': True})
        for i in range(25 if c.tier == 'quick' else 20000):
            L = int(rng.integers(4, 13))
            seq = [list(ops[int(rng.integers(0, len(ops)))]) for _ in range(L)]
            out.append({'cls': cls, 'start': gen.pick(rng, ['A', 'C']), 'ops': seq, 'fresh': bool(i % 3 == 0), 'i': i})
    return out


def resolve_nfft(v, N, cur):
    if v == 'same':
        return cur
    if v == 'none':
        return N                     # assigning None means "the data length""
    if v == 'nextpow2':
        return 1 << int(np.ceil(np.log2(N)))
    return int(v)


def build_ref(cls, st):
    """Freshly constructed object holding the tracked attribute values."""
    p = dict(INIT[cls])
    if 'order' in p:
        p['order'] = st['ar_order']
    if cls == 'parma':
        p.update(P=st['ar_order'], Q=st['ma_order'], lag=st['lag'])
    if cls == 'pma':
        p.update(Q=st['ma_order'], M=st['ar_order'])
    if cls in ('pmusic', 'pev'):
        p['P'] = st['ar_order']
    if cls in FOURIER:
        p['window'] = st['window']
    if cls == 'pcorrelogram':
        p['lag'] = st['lag']
    if cls == 'MultiTapering':
        p['NW'] = st.get('NW', p['NW'])
        p['k'] = st.get('k', p['k'])
    q = E.build(cls, p, np.array(DATA[st['data']], copy=True), NFFT=st['NFFT'], fs=st['fs'], scale=st['scale'])
    if st['detrend'] is not None:
        q.detrend = st['detrend']
    return q


def abstract(p, cls):
    try:
        cache_empty = p._Spectrum__psd is None
    except AttributeError:
        cache_empty = None
    return '%s|%s|mod=%s|empty=%s|%s|%s|scale=%s' % (cls, p.datatype, getattr(p, 'modified', None), cache_empty, p.sides,
                                                     'odd' if (p.NFFT or 0) % 2 else 'even', p.scale_by_freq)


def run_case(c, d):
    cls = d['cls']
    st = {'data': d['start'], 'NFFT': 32, 'fs': 1.0, 'scale': False, 'detrend': None}
    init = INIT[cls]
    st['ar_order'] = init.get('order', init.get('P', init.get('M')))
    st['ma_order'] = init.get('Q')
    st['lag'] = init.get('lag')
    st['window'] = init.get('window')
    nontrivial = any(o[0] not in ('read', 'call') for o in d['ops'])
    c.set_nontrivial(nontrivial)
    feats0 = {'cls': cls}
    try:
        live = build_ref(cls, st)
        if not d.get('fresh'):
            live()                               # initial computation: the history starts from a filled cache
    except Exception as exc:
        c.discard('initial-computation-raised:%s' % type(exc).__name__)
        return
    sides_log = []
    changed = []                                  # attributes assigned since the live object last recomputed
    ncalls = calls_of(cls)
    history = []

    def observe(what):
        nonlocal ncalls, sides_log, changed
        feats = dict(feats0, datatype='complex' if _is_cplx(st['data']) else 'real', nfft_odd=bool(st['NFFT'] % 2),
                     stale_after='+'.join(sorted(set(changed))) or 'nothing', read=what)
        target = what.split(':', 1)[1] if what.startswith('converted:') else None
        if target == 'onesided' and _is_cplx(st['data']):
            target = None                       # forbidden for complex data
        conv = None
        fr_first = None
        try:
            if what == 'frequencies':
                # the axis asked for *before* the values, as in plot(p.frequencies(), p.psd)
                fr_first = live.frequencies()
            if target is not None:
                # get_converted_psd is a read too: it must convert the estimate of the assigned values
                conv = np.array(live.get_converted_psd(target), copy=True, dtype=float)
            got = np.array(live.psd, copy=True)
            rep_sides = live.sides
            rep_nfft = live.NFFT
            df = live.df
            fr = live.frequencies()
        except Exception as exc:
            try:
                q = build_ref(cls, st)
                q()
                for s in sides_log:
                    q.sides = s
                _ = q.psd
                if target is not None:
                    _ = q.get_converted_psd(target)
            except Exception:
                # the assigned values admit no estimate: a fresh object raises, so must every read of this one -
                # a failed recomputation must not leave the previous estimate behind as if it were current
                c.count('reads-that-raised-like-the-reference')
                try:
                    again = np.array(live.psd, copy=True)
                except Exception:
                    c.ok('read:raises-again-while-no-estimate-exists')
                    return False
                c.fail('read:raises-again-while-no-estimate-exists',
                       {'history': history[-14:], 'state': dict(st), 'first_read_raised': repr(exc)[:200],
                        'second_read_returned_values': int(np.size(again))}, feats)
                return False
            c.exception('read', exc, feats)
            return False
        n2 = calls_of(cls)
        if n2 != ncalls:
            # the read recomputed: earlier sides assignments were applied to a cache that is gone
            ncalls, sides_log, changed_now = n2, [], []
            changed[:] = changed_now
        try:
            q = build_ref(cls, st)
            q()
            for s in sides_log:
                q.sides = s
            ref = np.array(q.psd, copy=True)
            ref_sides = q.sides
            ref_conv = np.array(q.get_converted_psd(target), copy=True, dtype=float) if target is not None else None
        except Exception as exc:
            c.discard('reference-raised:%s' % type(exc).__name__)
            return False
        # calls made by the reference object must not be mistaken for recomputations of the live one
        ncalls = calls_of(cls)
        det = {'history': history[-14:], 'state': {k: v for k, v in st.items()}, 'sides_replayed': list(sides_log)}
        c.compare('read:psd-equals-fresh-object', got, ref, 1e-12, feats, scale=float(np.max(np.abs(ref))) if ref.size else 1.0,
                  detail=det)
        if conv is not None:
            c.compare('read:get_converted_psd-equals-fresh-object', conv, ref_conv, 1e-12, dict(feats, target=target),
                      scale=float(np.max(np.abs(ref_conv))) if ref_conv.size else 1.0, detail=det)
        c.require('read:sides-equals-fresh-object', rep_sides == ref_sides, dict(det, got=rep_sides, want=ref_sides), feats)
        c.require('read:NFFT-is-the-assigned-value', rep_nfft == st['NFFT'], dict(det, got=rep_nfft, want=st['NFFT']), feats)
        c.compare('read:df-is-sampling/NFFT', df, st['fs'] / float(st['NFFT']), 1e-12, feats, scale=st['fs'], detail=det)
        nf = st['NFFT']
        dfx = st['fs'] / float(nf)
        axis = {'onesided': np.arange(refs.onesided_len(nf)) * dfx, 'twosided': np.arange(nf) * dfx,
                'centerdc': (np.arange(nf) - nf // 2) * dfx}.get(rep_sides)
        if axis is not None:
            c.compare('read:frequencies-lie-on-the-grid-of-the-assigned-sampling-and-NFFT', np.asarray(fr, dtype=float), axis,
                      1e-12, feats, scale=st['fs'], detail=det)
        f2 = dict(feats)
        charact = None
        if feats['datatype'] == 'real' and st['NFFT'] % 2 and rep_sides in ('twosided', 'centerdc'):
            f2['layout'] = 'private-nyquist-last'

            def charact(which):
                # F08: for odd NFFT the private layout yields NFFT-1 two-sided values
                return which == 'frozen-conversion-branches' and len(got) == st['NFFT'] - 1 and len(fr) == st['NFFT']
        c.require('read:one-value-per-reported-frequency', len(fr) == len(got), dict(det, psd=len(got), freqs=len(fr)), f2,
                  charact=charact)
        if fr_first is not None:
            # (same F08 layout caveat: for real data and odd NFFT the private two-sided layout has NFFT-1 values)
            ch1 = None
            if charact is not None:
                def ch1(which):
                    return which == 'frozen-conversion-branches' and len(got) == st['NFFT'] - 1 and len(fr_first) == st['NFFT']
            c.require('read:frequencies()-asked-before-psd-has-the-length-of-psd', len(fr_first) == len(got),
                      dict(det, freqs=len(fr_first), psd=len(got)), f2, charact=ch1)
        return True

    for op in d['ops']:
        kind, val = op
        before = abstract(live, cls)
        try:
            if kind == 'data':
                if val == 'inplace':
                    # the caller takes the record from the object, edits it in place and assigns it back
                    rec = live.data
                    rec[0] = rec[0] + 1.0
                    live.data = rec
                    val = st['data'] + '+'
                    if val not in DATA:
                        nd = np.array(DATA[st['data']], copy=True)
                        nd[0] = nd[0] + 1.0
                        DATA[val] = nd
                elif val == 'Alist':
                    live.data = [float(v) for v in DATA['A']]        # a plain list of the same samples as 'A'
                    val = 'A'
                else:
                    live.data = np.array(DATA[val], copy=True)
                st['data'] = val
                changed.append('data')
            elif kind == 'NFFT':
                new = resolve_nfft(val, len(DATA[st['data']]), st['NFFT'])
                live.NFFT = (st['NFFT'] if val == 'same' else (None if val == 'none' else val))
                if new != st['NFFT']:
                    changed.append('NFFT')
                st['NFFT'] = new
            elif kind == 'sampling':
                new = st['fs'] if val == 'same' else val
                live.sampling = new
                if new != st['fs']:
                    changed.append('sampling')
                st['fs'] = new
            elif kind == 'scale_by_freq':
                live.scale_by_freq = val
                if val != st['scale']:
                    changed.append('scale_by_freq')
                st['scale'] = val
            elif kind == 'detrend':
                live.detrend = val
                if val != st['detrend']:
                    changed.append('detrend')
                st['detrend'] = val
            elif kind == 'window':
                new = st['window'] if val == 'same' else val
                live.window = new
                if new != st['window']:
                    changed.append('window')
                st['window'] = new
            elif kind == 'lag':
                new = st['lag'] if val == 'same' else val
                live.lag = new
                if new != st['lag']:
                    changed.append('lag')
                st['lag'] = new
            elif kind in ('NW+call', 'k+call'):
                setattr(live, kind[:-5], val)
                st[kind[:-5]] = val
                live()
            elif kind == 'ar_order':
                new = st['ar_order'] if val == 'same' else (6 if val == 'np6' else val)
                live.ar_order = np.int64(6) if val == 'np6' else new
                if new != st['ar_order']:
                    changed.append('ar_order')
                st['ar_order'] = new
            elif kind == 'ma_order':
                live.ma_order = val
                if val != st['ma_order']:
                    changed.append('ma_order')
                st['ma_order'] = val
            elif kind == 'sides':
                target = live.sides if val == 'same' else val
                if target == 'onesided' and _is_cplx(st['data']):
                    c.discard('op:onesided-for-complex-data-is-forbidden')
                    continue
                live.sides = target
                # an attribute assignment reads back as assigned (also on an object that has not computed yet: the
                # requested layout must not be dropped by the first computation)
                c.require('op:sides-reads-back-as-assigned', live.sides == target,
                          {'assigned': target, 'read_back': live.sides, 'history': history[-8:], 'fresh': bool(d.get('fresh'))},
                          dict(feats0, op='sides', datatype='complex' if _is_cplx(st['data']) else 'real'))
                sides_log.append(target)
                changed.append('sides')
            elif kind == 'call':
                live()
            elif kind == 'plot':
                # plotting is a read: it may compute, it must not alter what later reads return
                import matplotlib
                matplotlib.use('Agg')
                import matplotlib.pyplot as plt
                try:
                    if val == 'norm':
                        live.plot(norm=True)
                    else:
                        live.plot(sides=val)
                finally:
                    plt.close('all')
            elif kind == 'read':
                history.append(op)
                if not observe(val):
                    return
                continue
        except Exception as exc:
            # is the operation itself legitimate on a fresh object in this state?
            try:
                q = build_ref(cls, st)
                q()
                _ = q.psd
            except Exception:
                c.discard('op-out-of-domain:%s' % kind)
                return
            fx = dict(feats0, op=kind, datatype='complex' if _is_cplx(st['data']) else 'real')
            chx = None
            if kind == 'plot' and not _is_cplx(st['data']) and st['NFFT'] % 2:
                # F08 seen through plot(): for real data and odd NFFT the private two-sided layout has NFFT-1 values,
                # which plot() itself refuses to draw against the NFFT-entry axis
                fx['layout'] = 'private-nyquist-last'
                msg = str(exc)

                def chx(which, msg=msg, n=st['NFFT']):
                    return which == 'frozen-conversion-branches' and msg == 'PSD length is %d and freq length is %d' % (n - 1, n)
            c.exception('op:%s' % kind, exc, fx, charact=chx)
            return
        history.append(op)
        n2 = calls_of(cls)
        if n2 != ncalls:
            ncalls = n2
            sides_log = [live.sides] if kind == 'sides' else []
            changed[:] = []
        after = abstract(live, cls)
        if after not in c.extra['abstract_states']:
            c.extra['abstract_states'].append(after)
        key = '%s --%s' % (before, kind)
        if key not in _TR:
            _TR.add(key)
            c.extra['transitions_seen'].append(key)
    history.append(['read', 'psd'])
    observe('final')


def finish(c):
    c.extra['states'] = len(c.extra.get('abstract_states', []))
    c.extra['transitions'] = len(c.extra.get('transitions_seen', []))
    if len(c.extra.get('transitions_seen', [])) > 60:
        c.extra['transitions_seen'] = c.extra['transitions_seen'][:60] + ['... (%d in total)' % c.extra['transitions']]
