"""C17 — MUSIC / EV resolve exact sinusoids and expose the data-matrix spectrum.

Contract on eigen() judges every call: singular values against numpy's SVD of
the forward-backward matrix built by the monitor, ordering, positivity, and —
when the subspace split is numerically well defined — the whole pseudo-spectrum
against the noise-subspace projection computed by the monitor.  The workload
drives noiseless on-grid exponentials (peaks within one bin, exactly K
non-negligible singular values), argument validation, and the two classes.
"""
import numpy as np

from .. import install, refs, gen, reach
from ..install import ctx as _ctx
from ..bootstrap import smod

REPO_TESTS_UNDER_CONTRACTS = True
RULE = ('cases = (K distinct on-grid bins incl. DC, +-1 and NFFT/2, amplitudes/phases drawn, N in 2P..128, '
        'P in K+1..16, NFFT in {64,100,128,256, odd}, method, complex exponentials | real sinusoids, '
        'function | class); plus noisy data with explicit NSIG / threshold / AIC / MDL; non-trivial when '
        'K >= 2 or the data are noisy; distinct = distinct descriptor')
ASSUMPTIONS = ['forward-backward matrix rebuilt by the monitor from X; numpy.linalg.svd is the reference',
               'the data matrix has all N-P forward and N-P backward rows (finding F37: the code used to cap them at 100)',
               'whole-spectrum comparison only when the gap sigma[NSIG-1]/sigma[NSIG] >= 1e3 (noise subspace well defined)']
REQUIRED_ANCHORS = ('eigen', '_get_signal_space')
SHIFTS = (0, 1, -1)


def fb_matrix(x, P, NP):
    x = np.asarray(x).astype(complex)
    FB = np.zeros((2 * NP, P), dtype=complex)
    for i in range(NP):
        for k in range(P):
            FB[i, k] = x[i - k + P - 1]
            FB[i + NP, k] = np.conj(x[i + k + 1])
    return FB


def music_ref(FB, nsig, NFFT, method, S):
    """1 / sum_i |e(f)^H v_i|^2 (/ sigma_i for EV) over the noise right-singular vectors."""
    _u, s, vh = np.linalg.svd(FB)
    P = FB.shape[1]
    f = (np.arange(NFFT) - NFFT // 2) / float(NFFT)
    E = np.exp(2j * np.pi * np.outer(f, np.arange(P)))       # rows e(f)^T
    acc = np.zeros(NFFT)
    for i in range(nsig, P):
        v = np.conj(vh[i])                                   # right singular vector
        proj = np.abs(np.conj(E) @ v) ** 2
        acc += proj if method == 'music' else proj / s[i]
    return 1.0 / acc


def post_eigen(X, P, NSIG, method, threshold, NFFT, criteria, result):
    c = _ctx()
    try:
        x = np.asarray(X)
        ok = x.ndim == 1 and x.dtype.kind in 'fci' and np.all(np.isfinite(x))
        P, NFFT = int(P), int(NFFT)
    except Exception:
        ok = False
    if not ok:
        return c.discard('eigen:domain')
    N = len(x)
    NPr = N - P
    if P < 2 or NPr < 1 or 2 * NPr <= P - 1 or NFFT < P:
        return c.discard('eigen:domain')
    feats = {'fn': 'eigen', 'method': str(method), 'cplx': bool(np.iscomplexobj(x)), 'nfft_odd': bool(NFFT % 2)}
    try:
        psd, S = result
        psd, S = np.asarray(psd), np.asarray(S)
    except Exception:
        return c.fail('eigen:returns-pair', {}, feats)
    c.require('eigen:psd-length', psd.shape == (NFFT,), {'len': list(psd.shape), 'NFFT': NFFT}, feats)
    # F26 is about *exactly* singular data: whether a singular value is exactly zero is decided on the monitor's own
    # SVD of the data matrix, not on the values the code returns (a code change that rounds small singular values to
    # zero must not be able to hide behind the known finding)
    try:
        _sv_own = np.linalg.svd(fb_matrix(x, P, NPr), compute_uv=False)
    except Exception:
        _sv_own = S
    f_pos = dict(feats, exact_zero_singular_value=_zero_sv(_sv_own))
    c.require('eigen:psd-positive', bool(np.isrealobj(psd) and not np.any(np.isnan(psd)) and np.all(psd > 0)),
              {'min': float(np.nanmin(psd)) if psd.size else None}, f_pos, charact=_ev_zero(psd))
    capped = NPr > 100              # the records on which finding F37 (a silent cap of 100 rows) showed
    NP = NPr
    FB = fb_matrix(x, P, NP)
    sref = np.linalg.svd(FB, compute_uv=False)
    if capped:
        c.count('records-with-more-than-100-data-matrix-rows')
    if c.require('eigen:singular-values-length', S.shape == sref.shape, {'len': list(S.shape), 'P': P}, feats):
        c.compare('eigen:singular-values-are-those-of-the-data-matrix', S, sref, 1e-9, feats,
                  scale=float(sref[0]) or 1.0, detail={'N': N, 'P': P, 'capped': capped})
        c.require('eigen:singular-values-non-increasing', bool(np.all(np.diff(S) <= 1e-12 * max(S[0], 1e-300))),
                  {'S': S[:6]}, feats)
    # whole pseudo-spectrum when the subspace split is explicit and well separated
    if NSIG is not None and threshold is None and psd.shape == (NFFT,) and 0 <= NSIG < P and S.shape == sref.shape:
        nsig = int(NSIG)
        ratios = sref[1:] / np.maximum(sref[:-1], 1e-300)
        if method == 'music':
            g = 1.0 - ratios[nsig - 1] if nsig > 0 else 1.0
            floor_ok = True
        else:
            lo = max(nsig - 1, 0)
            g = float(np.min(1.0 - ratios[lo:])) if len(ratios[lo:]) else 1.0
            floor_ok = sref[-1] > 1e-8 * sref[0]
        if g >= 1e-3 and floor_ok:
            ref = music_ref(FB, nsig, NFFT, method, sref)
            with np.errstate(divide='ignore', invalid='ignore'):
                gi, ri = 1.0 / psd, 1.0 / ref
            sc = float(np.max(ri))
            # C17 tolerates a placement error of one bin (C02 is the property that demands exactness
            # and installs this same contract with SHIFTS = (0,)): try the admissible circular shifts
            best = None
            for sh in SHIFTS:
                e = float(np.max(np.abs(np.roll(gi, sh) - ri))) / max(sc, 1e-300) \
                    if np.all(np.isfinite(gi)) and np.all(np.isfinite(ri)) else np.inf
                if best is None or e < best[1]:
                    best = (sh, e)
            if best[0] != 0 and best[1] <= 1e-10 / g:
                c.count('observation:pseudo-spectrum-matches-only-after-a-one-bin-shift')
            c.compare('eigen:pseudo-spectrum-is-the-noise-subspace-projection', np.roll(gi, best[0]), ri,
                      1e-10 / g, feats, scale=sc,
                      detail={'N': N, 'P': P, 'NSIG': nsig, 'NFFT': NFFT, 'gap': float(g), 'shift_tried': list(SHIFTS)})
        else:
            c.discard('eigen:subspace-not-well-separated')


def _zero_sv(S):
    # a noise singular value that is 0 (or so small that 1/S overflows): EV's weights are then infinite
    S = np.asarray(S, dtype=float)
    return bool(S.size and float(np.min(S)) <= 1e-280 * float(np.max(S)))


def _ev_zero(psd):
    def ch(which):
        # F26: EV divides by the noise singular values; when they are exactly 0 the result is 0 (or NaN) everywhere
        p = np.asarray(psd, dtype=float)
        return which == 'ev-spectrum-zero-on-exactly-singular-data' and bool(np.all((p == 0) | np.isnan(p)))
    return ch


def _probe_nsig(loc):
    c = _ctx()
    if c is None:
        return
    try:
        c.extra.setdefault('nsig_used', {})
        key = str(int(loc['NSIG'])) if loc.get('NSIG') is not None else 'None'
    except Exception:
        return


def setup(c):
    m = smod('eigenfre')
    reach.watch(c, {'eigen': m.eigen, '_get_signal_space': m._get_signal_space})
    install.contract('spectrum.eigenfre', 'eigen', post_eigen)
    reach.cover(c, {'eigen': install.original('spectrum.eigenfre', 'eigen'), '_get_signal_space': m._get_signal_space})


def local_maxima(p):
    """Indices of circular local maxima (plateaus count once), sorted by decreasing value."""
    p = np.asarray(p, dtype=float)
    n = len(p)
    idx = [i for i in range(n) if p[i] >= p[(i - 1) % n] and p[i] > p[(i + 1) % n] or
           (np.isinf(p[i]) and p[i] > 0)]
    return sorted(idx, key=lambda i: -p[i])


def draw_bins(rng, K, NFFT, P, real):
    sep = max(4, NFFT // (2 * P) + 2)
    special = [0, 1, -1, NFFT // 2, 2, -2]
    for _ in range(400):
        if real:
            half = K // 2
            cand = sorted(int(b) for b in rng.choice(np.arange(sep, NFFT // 2 - sep), size=half, replace=False))
            bins = cand
            full = sorted(cand + [-b for b in cand])
        else:
            bins = [int(b) for b in rng.choice(np.arange(-(NFFT // 2) + 1, NFFT // 2 + 1), size=K, replace=False)]
            if rng.uniform() < 0.5:
                bins[0] = special[int(rng.integers(0, len(special)))]
            full = bins
        ok = len(set(b % NFFT for b in full)) == len(full)
        for i in range(len(full)):
            for j in range(i):
                dd = abs((full[i] - full[j] + NFFT // 2) % NFFT - NFFT // 2)
                if dd < sep:
                    ok = False
        if ok:
            return bins
    return None


def cases(c):
    rng = c.rng('cases')
    out = []
    n = 1200 if c.tier == 'quick' else 192000
    for i in range(n):
        real = bool(rng.integers(0, 3) == 0)
        P = int(rng.integers(3, 17))
        K = int(rng.integers(1, min(P, 6)))
        if real:
            K = max(2, K - K % 2)
            if K >= P:
                continue
        NFFT = gen.pick(rng, [64, 100, 128, 256, 65, 127])
        N = int(rng.integers(2 * P, 129))
        bins = draw_bins(rng, K, NFFT, P, real)
        if bins is None:
            continue
        out.append({'fn': 'exact', 'real': real, 'P': P, 'K': K, 'NFFT': NFFT, 'N': N, 'bins': bins,
                    'method': gen.pick(rng, ['music', 'ev']), 'form': gen.pick(rng, ['function', 'class']),
                    'fs': gen.pick(rng, [1.0, 2.0, 1000.0]), 'amp10': int(gen.pick(rng, [0, 0, 0, -3, -7, 4])), 'i': i})
    for i in range(700 if c.tier == 'quick' else 120000):
        P = int(rng.integers(3, 17))
        N = int(rng.integers(2 * P, 129 if i % 5 else 200))
        out.append({'fn': 'noisy', 'P': P, 'N': N, 'cplx': int(rng.integers(0, 2)),
                    'kind': gen.pick(rng, ['tones', 'noise', 'ar']),
                    'NFFT': gen.pick(rng, [64, 100, 128, 65, 4096 if i % 10 == 0 else 256]),
                    'method': gen.pick(rng, ['music', 'ev']),
                    'select': gen.pick(rng, ['nsig', 'nsig', 'threshold', 'aic', 'mdl']),
                    'nsig': int(rng.integers(0, P)), 'i': i})
    for P in (4, 8):
        out.append({'fn': 'validation', 'P': P, 'N': 40, 'directed': True})
    out.append({'fn': 'witness-F26', 'N': 18, 'P': 8, 'NFFT': 65, 'directed': True})
    return out


def run_case(c, d):
    import spectrum
    if d['fn'] == 'validation':
        c.set_nontrivial(True)
        x = gen.noise(c.rng(d, 'x'), d['N'], True)
        P = d['P']
        for kw, why in (({'NSIG': 2, 'threshold': 2.0}, 'NSIG-and-threshold-together'),
                        ({'NSIG': 0, 'threshold': 2.0}, 'NSIG-and-threshold-together'),
                        ({'NSIG': 2, 'threshold': 0}, 'NSIG-and-threshold-together'),
                        ({'NSIG': 0, 'threshold': 0.0}, 'NSIG-and-threshold-together'),
                        ({'NSIG': -1}, 'negative-NSIG'), ({'NSIG': P}, 'NSIG-equal-P'),
                        ({'threshold': 0.5}, 'threshold-leaving-no-noise-subspace'),
                        ({'threshold': 0}, 'threshold-leaving-no-noise-subspace'),
                        ({'NSIG': np.int64(P)}, 'NSIG-equal-P'), ({'NSIG': np.int64(-2)}, 'negative-NSIG'),
                        ({'NSIG': P + 3}, 'NSIG-above-P')):
            for fn in ('music', 'ev', 'eigen'):
                try:
                    getattr(spectrum, fn)(x, P, NFFT=64, **kw)
                except ValueError:
                    c.ok('validation:%s-rejected' % why)
                except Exception as exc:
                    c.exception('validation', exc, {'fn': fn, 'why': why})
                else:
                    c.fail('validation:%s-rejected' % why, {'kwargs': kw}, {'fn': fn, 'why': why})
        return
    if d['fn'] == 'witness-F26':
        # exactly rank-deficient data (one complex exponential at DC): the contract on eigen() judges the call
        c.set_nontrivial(True)
        try:
            spectrum.ev(np.ones(d['N'], dtype=complex), d['P'], NSIG=1, NFFT=d['NFFT'])
        except Exception as exc:
            c.exception('eigen', exc, {'fn': 'eigen', 'method': 'ev'})
        return
    if d['fn'] == 'noisy':
        c.set_nontrivial(True)
        x = gen.data({'kind': d['kind'], 'N': d['N'], 'cplx': bool(d['cplx']), 'snr_db': 10.0}, c.rng(d, 'x'))
        if d.get('i', 0) % 7 in (5, 6):
            x = gen.variant(x, gen.LAYOUTS[d['i'] % 7 - 5])   # handed over as a non-contiguous view / read-only array
        kw = {}
        if d['select'] == 'nsig':
            kw['NSIG'] = d['nsig']
        elif d['select'] == 'threshold':
            kw['threshold'] = 2.0
        else:
            kw['criteria'] = d['select']
        try:
            spectrum.eigen(x, d['P'], method=d['method'], NFFT=d['NFFT'], **kw)
        except Exception as exc:
            c.exception('eigen', exc, {'fn': 'eigen', 'method': d['method'], 'select': d['select']})
        return
    # noiseless exponentials on the NFFT grid
    real, P, K, NFFT, N = d['real'], d['P'], d['K'], d['NFFT'], d['N']
    c.set_nontrivial(K >= 2)
    x = gen.data({'kind': 'exact', 'N': N, 'cplx': not real, 'grid': NFFT, 'bins': d['bins']}, c.rng(d, 'x'))
    x = x * 10.0 ** d.get('amp10', 0)
    if d.get('i', 0) % 7 in (5, 6):
        x = gen.variant(x, gen.LAYOUTS[d['i'] % 7 - 5])       # handed over as a non-contiguous view / read-only array
    true = sorted(set(b % NFFT for b in (d['bins'] + [-b for b in d['bins']] if real else d['bins'])))
    feats = {'method': d['method'], 'real': real, 'form': d['form'], 'nfft_odd': bool(NFFT % 2)}
    try:
        if d['form'] == 'function':
            psd, S = getattr(spectrum, d['method'])(x, P, NSIG=K, NFFT=NFFT)
            psd = np.asarray(psd)
            bins_of = (np.arange(NFFT) - NFFT // 2) % NFFT          # centre-DC layout of the function
            freqs_ok = len(psd) == NFFT
        else:
            cls = spectrum.pmusic if d['method'] == 'music' else spectrum.pev
            p = cls(x, P, NSIG=K, NFFT=NFFT, sampling=d['fs'])
            psd = np.asarray(p.psd)
            S = p.eigenvalues
            fr = np.asarray(p.frequencies())
            freqs_ok = len(fr) == len(psd)
            bins_of = np.rint(fr * NFFT / d['fs']).astype(int) % NFFT if freqs_ok else None
    except Exception as exc:
        c.exception(d['method'], exc, feats)
        return
    if not c.require('exact:psd-has-one-value-per-frequency', bool(freqs_ok), {'len': len(psd), 'NFFT': NFFT}, feats):
        return
    try:
        _sv_own = np.linalg.svd(fb_matrix(np.asarray(x), P, N - P), compute_uv=False)
    except Exception:
        _sv_own = S
    feats = dict(feats, exact_zero_singular_value=_zero_sv(_sv_own))
    ch0 = _ev_zero(psd)
    c.require('exact:pseudo-spectrum-positive', bool(not np.any(np.isnan(psd)) and np.all(psd > 0)),
              {'min': float(np.nanmin(psd))}, feats, charact=ch0)
    # finite wherever the noise-subspace projection does not vanish (two or more bins away from a tone)
    if bins_of is not None:
        tb = sorted(set(b % NFFT for b in (d['bins'] + [-b for b in d['bins']] if real else d['bins'])))
        far = np.array([min(abs((int(b) - t + NFFT // 2) % NFFT - NFFT // 2) for t in tb) >= 2 for b in bins_of])
        if np.any(far):
            c.require('exact:finite-away-from-the-tones', bool(np.all(np.isfinite(psd[far]))),
                      {'non_finite': int(np.sum(~np.isfinite(psd[far])))}, feats)
    S = np.asarray(S)
    nonneg = int(np.sum(S > 1e-8 * S[0]))
    c.require('exact:exactly-K-non-negligible-singular-values', nonneg == K, {'count': nonneg, 'K': K, 'S': S[:8]}, feats)
    # K largest local maxima within one bin of the true frequencies
    if d['form'] == 'class' and real:
        want = sorted(set(min(b, NFFT - b) for b in true))          # one-sided axis
        present = set(int(b) for b in bins_of)
        want = [b for b in want if b in present or (b - 1) in present or (b + 1) in present]
        nw = len(want)
    else:
        want, nw = true, len(true)
    peaks = local_maxima(psd)[:nw]
    pk_bins = [int(bins_of[i]) for i in peaks]

    def dist(a, b):
        return abs((a - b + NFFT // 2) % NFFT - NFFT // 2)
    worst = 0
    for b in want:
        worst = max(worst, min([dist(b, q) for q in pk_bins] or [NFFT]))
    for q in pk_bins:
        worst = max(worst, min([dist(b, q) for b in want] or [NFFT]))
    c.err('exact:peak-distance-bins', worst)
    c.require('exact:K-largest-maxima-within-one-bin-of-the-true-frequencies', worst <= 1,
              {'true_bins': want, 'peak_bins': pk_bins, 'NFFT': NFFT, 'P': P, 'N': N}, feats, charact=ch0)


def finish(c):
    install.require_evaluated(c, ['eigenfre.eigen'])
