"""C05 — NFFT only chooses the sampling grid of one underlying spectrum.

Paired-execution trace monitor: every class is run at an admissible NFFT1 and
at c*NFFT1 (c in 2, 3, 5); the offline checker compares the values at the
common frequencies (strided sub-sampling, DC and Nyquist included) and all
exposed model parameters.
"""
import numpy as np

from .. import gen, reach, refs, install, estimators as E
from ..bootstrap import smod

NEEDS_NATIVE = True
RULE = ('groups = (class, real/complex, N, NFFT1 in {admissible minimum, +1 (other parity), prime, 2^m}, factor c in '
        '{2,3,5}, data kind, orders in domain); two executions per group; every group is non-trivial; '
        'distinct = distinct descriptor')
ASSUMPTIONS = ['scaling off; admissibility per estimator as stated in the property',
               'adaptive multitaper compared at 1e-3: its stop rule bounds the mean change of the spectrum by '
               '0.0005*sigma^2/NFFT, which depends on NFFT by construction (larger differences are finding F23, '
               'absorbed only if both runs still equal a frozen restatement of the iteration)',
               'model parameters compared at 1e-12, values at 1e-8 (parma/pma 1e-6, MUSIC/EV on 1/psd at 1e-6)']
REQUIRED_ANCHORS = ('arma2psd', 'Spectrum._setNFFT')


def setup(c):
    reach.watch(c, {'arma2psd': smod('arma').arma2psd, 'Spectrum._setNFFT': smod('psd').Spectrum._setNFFT,
                    'speriodogram': smod('periodogram').speriodogram, 'pmtm': smod('mtm').pmtm,
                    'minvar': smod('minvar').minvar, 'CORRELOGRAMPSD': smod('correlog').CORRELOGRAMPSD})


def cases(c):
    rng = c.rng('cases')
    out = []
    n = 120 if c.tier == 'quick' else 19200
    for cls in E.CLASSES:
        for j in range(n):
            N = int(rng.integers(16, 72))
            params = E.draw(rng, cls, N)
            base = max(E.min_nfft(cls, params, N), 2)
            NFFT1 = int(gen.pick(rng, [base, base + 1, gen.next_prime(base), 1 << int(np.ceil(np.log2(base))),
                                       base + int(rng.integers(0, 30))]))
            out.append({'cls': cls, 'p': params, 'N': N, 'NFFT1': NFFT1, 'factor': int(gen.pick(rng, [2, 3, 5])),
                        'cplx': int(rng.integers(0, 2)), 'kind': gen.pick(rng, ['noise', 'tones', 'ar', 'trend']),
                        'fs': gen.pick(rng, [1.0, 2.0, 100.0]), 'reuse': ((j // 3) % 4) if j % 3 == 1 else None, 'j': j})
            if cls == 'MultiTapering' and j % 3 == 2:
                # the caller computes the tapers once (dpss) and hands the same arrays to the objects of both grids
                out[-1]['tapers'] = 'caller'
    # hostile for the adaptive multitaper: large dynamic range (finding F23 lives here)
    for j, (N, n1, fac, cplx) in enumerate([(64, 65, 2, 0), (64, 64, 3, 1), (48, 50, 2, 0), (40, 41, 5, 1),
                                            (64, 65, 2, 0), (64, 65, 2, 0), (64, 65, 2, 0), (64, 64, 3, 1)]):
        out.append({'cls': 'MultiTapering', 'p': {'NW': 2.5, 'k': 4, 'method': 'adapt'}, 'N': N, 'NFFT1': n1,
                    'factor': fac, 'cplx': cplx, 'kind': 'tones', 'snr_db': 40.0, 'fs': 1.0, 'j': j, 'directed': True})
    return out


def adapt_frozen(x, NW, k, NFFT):
    """Frozen restatement of today's adaptive iteration (characterisation of finding F23)."""
    x = np.asarray(x)
    N = len(x)
    tapers, lam = install.original('spectrum.mtm', 'dpss')(N, NW, k)
    nwin = len(lam)
    sig2 = np.vdot(x, x).real / float(N)
    Sk = (np.abs(np.fft.fft(tapers.T * x, NFFT)) ** 2).T
    S = np.mean(Sk[:, :2], axis=1).reshape(NFFT, 1)
    S1 = np.zeros((NFFT, 1))
    tol = 0.0005 * sig2 / float(NFFT)
    i = 0
    a = sig2 * (1 - lam)
    wk = np.ones((NFFT, 1)) * lam
    while np.sum(np.abs(S - S1)) / NFFT > tol and i < 100:
        i += 1
        b = (S * np.ones((1, nwin))) / (S * lam + np.ones((NFFT, 1)) * a)
        wk = b ** 2 * (np.ones((NFFT, 1)) * lam)
        S1 = (np.sum(wk.T * Sk.T, axis=0) / np.sum(wk.T, axis=0)).reshape(NFFT, 1)
        S, S1 = S1, S
    return np.mean(Sk * wk, axis=1)


def run_case(c, d):
    cls, N, n1, fac = d['cls'], d['N'], d['NFFT1'], d['factor']
    n2 = n1 * fac
    cplx = bool(d['cplx'])
    dd = {'kind': d['kind'], 'N': N, 'cplx': cplx}
    if 'snr_db' in d:
        dd.update(snr_db=d['snr_db'], K=1)
    x = gen.data(dd, c.rng(d, 'x'))
    if np.asarray(x).dtype.kind == 'i':
        x = x.astype(float)
    adapt = cls == 'MultiTapering' and d['p'].get('method', 'adapt') == 'adapt'
    feats = {'cls': cls, 'cplx': cplx, 'nfft1_odd': bool(n1 % 2), 'adapt': adapt}
    log = []
    tapers = None
    if d.get('tapers') == 'caller':
        import spectrum
        try:
            tapers = spectrum.dpss(N, d['p']['NW'], d['p'].get('k'))
        except Exception as exc:
            c.exception('dpss', exc, feats)
            return
        feats = dict(feats, tapers='caller')
    for role, nf in (('NFFT1', n1), ('NFFT2', n2)):
        try:
            if tapers is not None:
                p = spectrum.MultiTapering(x, NFFT=nf, e=tapers[1], v=tapers[0], method=d['p'].get('method', 'adapt'),
                                           sampling=d['fs'], scale_by_freq=False)
            elif d.get('reuse') is not None and role == 'NFFT2':
                p = E.build_reused(cls, d['p'], x, NFFT=nf, fs=d['fs'], scale=False, salt=d['reuse'])
            else:
                p = E.build(cls, d['p'], x, NFFT=nf, fs=d['fs'], scale=False)
            psd = np.asarray(p.psd)
            log.append({'role': role, 'psd': np.array(psd, copy=True), 'exposed': {k: np.array(v, copy=True) for k, v in E.exposed(p).items()},
                        'freqs': np.asarray(p.frequencies()), 'error': None})
            p = None            # short-lived object: the next one must not depend on what a dead one left behind
        except Exception as exc:
            log.append({'role': role, 'error': exc})
    if log[0]['error'] is not None and log[1]['error'] is not None:
        c.discard('both-runs-raised:%s' % type(log[0]['error']).__name__)
        return
    for ev in log:
        if ev['error'] is not None:
            c.exception(ev['role'], ev['error'], feats)
            return
    a, b = log[0]['psd'], log[1]['psd']
    L1 = n1 if cplx else refs.onesided_len(n1)
    L2 = n2 if cplx else refs.onesided_len(n2)
    det = {'N': N, 'NFFT1': n1, 'NFFT2': n2, 'params': d['p']}
    if not c.require('lengths', a.shape == (L1,) and b.shape == (L2,), dict(det, got=[list(a.shape), list(b.shape)]), feats):
        return
    idx = np.arange(L1) * fac
    keep = idx < L2
    sub = b[idx[keep]]
    ref = a[keep]
    fr1, fr2 = log[0]['freqs'], log[1]['freqs']
    if len(fr1) == L1 and len(fr2) == L2:
        c.compare('common-frequencies-coincide', fr2[idx[keep]], fr1[keep], 1e-12, feats, scale=d['fs'], detail=det)
    got, want = sub, ref
    if cls in ('pmusic', 'pev'):
        with np.errstate(divide='ignore'):
            got, want = 1.0 / sub, 1.0 / ref
        tol = 1e-6
    elif adapt:
        tol = 1e-3
    else:
        tol = E.rel_tol(cls)
    charact = None
    if adapt:
        def charact(which):
            if which != 'frozen-adaptive-iteration':
                return False
            ok = True
            for nf, mine in ((n1, a), (n2, b)):
                fz = adapt_frozen(x, d['p']['NW'], d['p'].get('k'), nf)
                fz = fz if cplx else 2 * fz[:refs.onesided_len(nf)]
                ok = ok and fz.shape == mine.shape and \
                    float(np.max(np.abs(fz - mine))) <= 1e-8 * float(np.max(np.abs(fz)))
            return ok
    c.compare('values-at-common-frequencies-agree', got, want, tol, feats, scale=float(np.max(np.abs(want))) or 1.0,
              detail=det, charact=charact, pointwise=1e-6)
    e1, e2 = log[0]['exposed'], log[1]['exposed']
    for key in sorted(set(e1) | set(e2)):
        if key == 'weights' and adapt:
            continue                               # one weight per (frequency, taper): grid dependent by shape
        if key not in e1 or key not in e2:
            c.fail('model-parameter-present-on-both-grids', {'name': key}, dict(feats, parameter=key))
            continue
        v1, v2 = np.asarray(e1[key]), np.asarray(e2[key])
        c.compare('model-parameters-do-not-depend-on-NFFT', v2, v1, 1e-12, dict(feats, parameter=key),
                  scale=max(1.0, float(np.max(np.abs(v1)))) if v1.size else 1.0, detail=det)
