"""C01 — periodogram equals the windowed-DFT definition and conserves power.

Contracts on speriodogram and CORRELOGRAMPSD judge every call that falls under
the statement (no detrending, no frequency scaling; Wiener-Khinchin
configuration) against numpy.fft of x*w computed by the monitor; a frame probe
checks that the correlogram's lag buffer is Hermitian before its FFT.  The
workload drives function and class, 1-D and 2-D input, both correlation back
ends, repeat evaluation on the same array and recomputation after an NFFT
change.
"""
import numpy as np

from .. import install, refs, gen, reach
from ..install import ctx as _ctx
from ..bootstrap import smod

REPO_TESTS_UNDER_CONTRACTS = True
RULE = ('cases = (window name, N, NFFT in {N, N+1, 2N-1, 2N, 2N+1, prime, 2^m}, real/complex, data kind in '
        '{noise, tones, const, int, dyn, impulse}, 1-D | 2-D with c columns, function | class | correlogram); '
        'exhaustive over the 29 windows x N in 1..40 (quick: 1..16 + sampled), sampled to 1024; non-trivial '
        'when the window is not rectangular, or NFFT != N, or the data are complex; distinct = distinct descriptor')
ASSUMPTIONS = ['numpy.fft is the reference; the window samples are taken from create_window (judged by C20) '
               'and applied by the monitor', 'windows that are not finite at some N are skipped here (counted)',
               'detrend=True and scale_by_freq=True are outside the statement']
REQUIRED_ANCHORS = ('speriodogram', 'Periodogram.__call__', 'CORRELOGRAMPSD')
TOL = 1e-10


def window_samples(N, name):
    W = smod('window')
    w = install.original('spectrum.window', 'create_window')(N, name)
    return np.asarray(w, dtype=float)


def ref_periodogram(x, w, NFFT):
    x = np.asarray(x)
    if x.dtype.kind in 'iu':
        x = x.astype(float)
    xw = x * w
    F = np.fft.fft(xw, NFFT, axis=0)
    P = np.abs(F) ** 2 / x.shape[0]
    if np.isrealobj(x):
        P = P[:NFFT // 2 + 1]
    return P, float(np.sum(np.abs(xw) ** 2)) / x.shape[0] if x.ndim == 1 else None


def post_speriodogram(x, NFFT, detrend, sampling, scale_by_freq, window, OLD, result):
    c = _ctx()
    xa = OLD.x0
    if xa is None or xa.ndim not in (1, 2) or xa.shape[0] < 1 or xa.dtype.kind not in 'fciu' or not np.all(np.isfinite(xa)):
        return c.discard('speriodogram:domain')
    if detrend or scale_by_freq is True:
        return c.discard('speriodogram:detrend-or-scaling-outside-statement')
    N = xa.shape[0]
    nfft = N if NFFT is None else int(NFFT)
    if nfft < N:
        return c.discard('speriodogram:NFFT<N')
    try:
        w = window_samples(N, window)
    except Exception:
        return c.discard('speriodogram:window-unavailable')
    if w.shape != (N,) or not np.all(np.isfinite(w)):
        return c.discard('speriodogram:window-not-finite(C20)')
    feats = {'fn': 'speriodogram', 'cplx': bool(np.iscomplexobj(xa)), 'ndim': int(xa.ndim),
             'rect': window in ('rectangular', 'rectangle')}
    det = {'N': N, 'NFFT': nfft, 'window': window, 'shape': list(xa.shape)}
    got = np.asarray(result)
    if xa.ndim == 1:
        ref, power = ref_periodogram(xa, w, nfft)
    else:
        ref, power = ref_periodogram(xa, w[:, None], nfft)
    sc = float(np.max(ref)) if ref.size and np.max(ref) > 0 else 1.0
    c.compare('periodogram:equals-|DFT(x*w)|^2/N', got, ref, TOL, feats, scale=sc, detail=det)
    if xa.ndim == 1 and np.iscomplexobj(xa) and got.shape == ref.shape and power is not None and power > 0:
        c.compare('periodogram:parseval(mean-of-NFFT-values)', float(np.mean(got)), power, TOL, feats, scale=power,
                  detail=det)
    try:
        same = np.array_equal(np.asarray(x), xa)
    except Exception:
        same = True
    c.require('speriodogram:input-not-modified', same, det, feats)


def post_CORRELOGRAMPSD(X, Y, lag, window, norm, NFFT, correlation_method, result):
    c = _ctx()
    try:
        xa = np.asarray(X)
        ok = xa.ndim == 1 and len(xa) >= 1 and xa.dtype.kind in 'fciu'
    except Exception:
        ok = False
    if not ok:
        return c.discard('CORRELOGRAMPSD:domain')
    N = len(xa)
    auto = Y is None or (len(Y) == N and np.array_equal(np.asarray(Y), xa))
    nfft = N if NFFT is None else int(NFFT)
    if not (auto and window in ('rectangular', 'rectangle') and norm == 'biased' and lag == N - 1 and nfft >= 2 * N - 1):
        return c.discard('CORRELOGRAMPSD:not-the-wiener-khinchin-configuration')
    feats = {'fn': 'CORRELOGRAMPSD', 'cplx': bool(np.iscomplexobj(xa)), 'method': correlation_method,
             'nfft_odd': bool(nfft % 2)}
    ref = np.abs(np.fft.fft(xa.astype(complex if np.iscomplexobj(xa) else float), nfft)) ** 2 / N
    sc = float(np.max(ref)) or 1.0
    feats['dtype'] = xa.dtype.name
    c.compare('wiener-khinchin:correlogram-equals-rectangular-periodogram', np.asarray(result), ref, TOL, feats,
              scale=sc, detail={'N': N, 'NFFT': nfft})


def _probe_lagbuffer(loc):
    c = _ctx()
    if c is None:
        return
    try:
        psd, lag, cross, NFFT = loc['psd'], loc['lag'], loc['crosscorrelation'], loc['NFFT']
    except KeyError:
        return c.count('probe:correlogram-lagbuffer:locals-missing')
    if cross or lag < 1 or NFFT < 2 * lag + 1:
        return
    m = np.arange(1, lag + 1)
    sc = float(np.max(np.abs(psd))) or 1.0
    err = float(np.max(np.abs(psd[-m] - np.conj(psd[m])))) / sc
    c.err('probe:correlogram-lag-buffer-hermitian', err)
    if err <= 1e-12 and abs(psd[0].imag) <= 1e-12 * sc:
        c.ok('probe:correlogram-lag-buffer-hermitian')
    else:
        c.fail('probe:correlogram-lag-buffer-hermitian', {'err': err, 'lag': int(lag), 'NFFT': int(NFFT)},
               {'fn': 'CORRELOGRAMPSD', 'probe': 'lagbuffer'})


def _snap(x):
    try:
        return np.array(x, copy=True)
    except Exception:
        return None


def setup(c):
    per = smod('periodogram')
    cor = smod('correlog')
    reach.watch(c, {'speriodogram': per.speriodogram, 'Periodogram.__call__': per.Periodogram.__call__,
                    'CORRELOGRAMPSD': cor.CORRELOGRAMPSD, 'CORRELATION': smod('correlation').CORRELATION,
                    'xcorr': smod('correlation').xcorr})
    reach.probe('correlogram-lagbuffer', cor.CORRELOGRAMPSD, 'psd = numpy.real(fft(psd))', _probe_lagbuffer)
    install.contract('spectrum.periodogram', 'speriodogram', post_speriodogram, snapshots=[('x0', _snap)])
    install.contract('spectrum.correlog', 'CORRELOGRAMPSD', post_CORRELOGRAMPSD)


KINDS = ['noise', 'tones', 'const', 'int', 'dyn', 'impulse']


def _variant(d, i):
    """Every 5th sampled case stores the record differently: complex dtype with an exactly zero imaginary part
    (complex data: all NFFT bins are returned) or a narrow integer dtype at ADC amplitude (real data)."""
    if i % 5 == 3:
        d['variant'] = 'zimag' if d['cplx'] else gen.NARROW[(i // 5) % len(gen.NARROW)]
    gen.layout_variant(d, i)


def cases(c):
    rng = c.rng('cases')
    names = sorted(smod('window').window_names)
    out = []
    nmax = 16 if c.tier == 'quick' else 40
    for N in range(1, nmax + 1):
        for name in names:
            opts = gen.nfft_options(N)
            for NFFT in ([gen.pick(rng, opts)] if c.tier == 'quick' else opts):
                out.append({'form': gen.pick(rng, ['function', 'class']), 'window': name, 'N': N, 'NFFT': int(NFFT),
                            'cplx': int(rng.integers(0, 2)), 'kind': gen.pick(rng, KINDS), 'cols': 0,
                            'directed': N <= 2})
    for i in range(1200 if c.tier == 'quick' else 192000):
        N = int(rng.integers(17, 1025 if i % 8 == 0 else 100))
        out.append({'form': gen.pick(rng, ['function', 'class', 'function2d']), 'window': gen.pick(rng, names), 'N': N,
                    'NFFT': int(gen.pick(rng, gen.nfft_options(N))), 'cplx': int(rng.integers(0, 2)),
                    'kind': gen.pick(rng, KINDS), 'cols': int(rng.integers(1, 5)), 'i': i})
        _variant(out[-1], i)
    for N in range(2, 7):
        for name in ('hann', 'hamming', 'blackman', 'kaiser'):
            for cols in (1, 2, 3):
                out.append({'form': 'function2d', 'window': name, 'N': N + 3, 'NFFT': 2 * N + 7, 'cplx': int(cols % 2),
                            'kind': 'noise', 'cols': cols, 'directed': True})
    for i in range(500 if c.tier == 'quick' else 96000):
        N = int(rng.integers(1, 41 if i % 4 else 120)) if i >= 6 else 1 + i // 3
        out.append({'form': 'correlogram', 'N': N, 'NFFT': int(gen.pick(rng, [max(1, 2 * N - 1), 2 * N, 2 * N + 1, gen.next_prime(2 * N), 4 * N])),
                    'cplx': int(rng.integers(0, 2)), 'kind': gen.pick(rng, ['noise', 'tones', 'const', 'int', 'dyn']),
                    'method': gen.pick(rng, ['xcorr', 'CORRELATION']), 'window': 'rectangular', 'cols': 0, 'i': i})
        _variant(out[-1], i)
    return out


def run_case(c, d):
    import spectrum
    N, NFFT, cplx, name = d['N'], d['NFFT'], bool(d['cplx']), d['window']
    rect = name in ('rectangular', 'rectangle')
    c.set_nontrivial((not rect) or NFFT != N or cplx)
    feats = {'form': d['form'], 'cplx': cplx, 'rect': rect, 'variant': d.get('variant')}
    if d['form'] == 'correlogram':
        x = gen.data({'kind': d['kind'], 'N': N, 'cplx': cplx, 'variant': d.get('variant')}, c.rng(d, 'x'))
        c.set_nontrivial(True)
        try:
            spectrum.CORRELOGRAMPSD(x, lag=N - 1, window='rectangular', norm='biased', NFFT=NFFT,
                                    correlation_method=d['method'])
        except Exception as exc:
            c.exception('CORRELOGRAMPSD', exc, dict(feats, method=d['method']))
            return
        if N >= 2 and d.get('i', 0) % 2 == 0:
            # class form in the same configuration: the values of the function (judged by the contract on the inner
            # call), all NFFT bins for complex data, bins 0..NFFT/2 doubled except DC and fs/2 for real data
            try:
                pc = spectrum.pcorrelogram(x, lag=N - 1, window='rectangular', NFFT=NFFT, scale_by_freq=False)
                got = np.asarray(pc.psd)
                full = np.asarray(spectrum.CORRELOGRAMPSD(np.asarray(x), np.asarray(x), lag=N - 1, window='rectangular', NFFT=NFFT))
            except Exception as exc:
                c.exception('pcorrelogram', exc, dict(feats, form='correlogram-class'))
                return
            if cplx:
                ref = full
            else:
                L = NFFT // 2 + 1
                ref = 2.0 * full[:L]
                ref[0] /= 2.0
                if NFFT % 2 == 0:
                    ref[-1] /= 2.0
            c.compare('pcorrelogram.psd-is-the-(folded)-function-result', got, ref, 1e-12, dict(feats, form='correlogram-class'),
                      scale=float(np.max(np.abs(ref))) or 1.0, detail={'N': N, 'NFFT': NFFT})
        return
    if d['form'] == 'function2d':
        cols = max(1, d['cols'])
        x = np.stack([gen.data({'kind': d['kind'], 'N': N, 'cplx': cplx, 'variant': d.get('variant')}, c.rng(d, 'x', j)) for j in range(cols)], axis=1)
    else:
        x = gen.data({'kind': d['kind'], 'N': N, 'cplx': cplx, 'variant': d.get('variant')}, c.rng(d, 'x'))
    try:
        w = window_samples(N, name)
    except Exception:
        w = None
    if w is None or not np.all(np.isfinite(w)):
        c.discard('window-not-finite(C20)')
        return
    if d['form'] in ('function', 'function2d'):
        try:
            r1 = spectrum.speriodogram(x, NFFT=NFFT, detrend=False, scale_by_freq=False, window=name)
            if d.get('i', 0) % 4 == 1:
                # a caller's own Window object of the same name and length, normalised in place by the caller
                try:
                    wo = spectrum.Window(N, name)
                    np.multiply(wo.data, 0.5, out=wo.data)
                except Exception:
                    pass
            r2 = spectrum.speriodogram(x, NFFT=NFFT, detrend=False, scale_by_freq=False, window=name)
        except Exception as exc:
            c.exception('speriodogram', exc, feats)
            return
        c.compare('speriodogram:repeat-evaluation-on-the-same-array', np.asarray(r2), np.asarray(r1), 0.0, feats,
                  scale=float(np.max(np.abs(r1))) or 1.0)
        if d['form'] == 'function2d' and np.asarray(r1).ndim == 2:
            for j in range(x.shape[1]):        # column-wise: equals the 1-D result of each column
                ref, _ = ref_periodogram(x[:, j], w, NFFT)
                c.compare('speriodogram:2d-is-column-wise', np.asarray(r1)[:, j], ref, TOL, dict(feats, cols=x.shape[1]),
                          scale=float(np.max(ref)) or 1.0, detail={'column': j, 'N': N, 'NFFT': NFFT, 'window': name})
            if d.get('i', 0) % 3 == 0:
                # the class accepts the same 2-D input (one record per column)
                try:
                    pc = spectrum.Periodogram(x, window=name, NFFT=NFFT, scale_by_freq=False)
                    got = np.asarray(pc.psd)
                except Exception as exc:
                    c.exception('Periodogram', exc, dict(feats, form='class2d'))
                    return
                c.compare('Periodogram(2d).psd-equals-the-function', got, np.asarray(r1), 0.0, dict(feats, form='class2d'),
                          scale=float(np.max(np.abs(r1))) or 1.0, detail={'N': N, 'NFFT': NFFT, 'window': name})
        return
    # class form (+ recomputation after an NFFT change on the same object)
    try:
        p = spectrum.Periodogram(x, window=name, NFFT=NFFT, scale_by_freq=False)
        psd = np.asarray(p.psd)
    except Exception as exc:
        c.exception('Periodogram', exc, feats)
        return
    ref, power = ref_periodogram(x, w, NFFT)
    sc = float(np.max(ref)) if np.max(ref) > 0 else 1.0
    c.compare('Periodogram.psd-equals-|DFT(x*w)|^2/N', psd, ref, TOL, feats, scale=sc,
              detail={'N': N, 'NFFT': NFFT, 'window': name})
    try:
        n2 = NFFT + 3
        p.NFFT = n2
        psd2 = np.asarray(p.psd)
    except Exception as exc:
        c.exception('Periodogram', exc, dict(feats, step='NFFT-reassigned'))
        return
    ref2, _ = ref_periodogram(x, w, n2)
    c.compare('Periodogram.psd-after-NFFT-change-equals-definition', psd2, ref2, TOL, feats,
              scale=float(np.max(ref2)) if np.max(ref2) > 0 else 1.0, detail={'N': N, 'NFFT': n2, 'window': name})
    # ... and after a window change on the same (already evaluated) object
    other = 'bartlett' if name != 'bartlett' else 'hamming'
    try:
        w3 = window_samples(N, other)
        p.window = other
        psd3 = np.asarray(p.psd)
    except Exception as exc:
        c.exception('Periodogram', exc, dict(feats, step='window-reassigned'))
        return
    ref3, _ = ref_periodogram(x, w3, n2)
    c.compare('Periodogram.psd-after-window-change-equals-definition', psd3, ref3, TOL, feats,
              scale=float(np.max(ref3)) if np.max(ref3) > 0 else 1.0, detail={'N': N, 'NFFT': n2, 'window': other})


def finish(c):
    install.require_evaluated(c, ['periodogram.speriodogram', 'correlog.CORRELOGRAMPSD'])
