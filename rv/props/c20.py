"""C20 — every named window is a well-formed taper of the requested length.

Contracts on every window_* generator (they fire through create_window, Window
and the periodogram/correlogram paths too) and on enbw judge each call: length,
finite real samples, symmetry, maximum, centre sample, ENBW, closed form.  The
workload drives the factory, aliases, parameter forwarding / rejection and the
Window object (several objects per (N, name) in one process).
"""
import numpy as np
import scipy.signal.windows as sw
import scipy.special

from .. import install, gen, reach
from ..install import ctx as _ctx
from ..bootstrap import smod

REPO_TESTS_UNDER_CONTRACTS = True
RULE = ('cases = (window name, N, shape parameters); exhaustive over the 29 names x N (1..128 quick, 1..512 '
        'thorough) with default parameters, plus parameter grids and sampled N up to 16384; non-trivial when '
        'N >= 3; distinct = distinct descriptor')
ASSUMPTIONS = ['closed forms from scipy.signal.windows / scipy.special where an independent implementation exists, '
               'otherwise the documented formula written out here',
               'flat-top: max <= 1 + 1e-7 (published coefficients sum to 1.000000003); periodic mode judged against '
               'its own definition (first N samples of the symmetric N+1 window)',
               'chebwin: centre = 1 only where scipy\'s window has its maximum at the centre',
               'closed forms compared for N >= 2 (several linspace-based generators are degenerate at N = 1)']
REQUIRED_ANCHORS = ('create_window', 'enbw')

ALIASES = [('hann', 'hanning'), ('sinc', 'lanczos'), ('rectangular', 'rectangle'),
           ('bartlett', 'triangular'), ('cosine', 'sine')]
PARAMS = {'kaiser': ['beta'], 'blackman': ['alpha'], 'cauchy': ['alpha'], 'flattop': ['mode'],
          'gaussian': ['alpha'], 'chebwin': ['attenuation'], 'tukey': ['r'], 'poisson': ['alpha'],
          'poisson_hanning': ['alpha'], 'taylor': ['nbar', 'sll']}


def _t(N):
    return np.linspace(-1.0, 1.0, N)


def _n(N):
    return np.arange(N) - (N - 1) / 2.0


def ref_rectangle(N):
    return np.ones(N)


def ref_hann(N):
    return sw.hann(N)


def ref_hamming(N):
    return sw.hamming(N)


def ref_bartlett(N):
    return sw.bartlett(N)


def ref_blackman(N, alpha=0.16):
    if N == 1:
        return np.ones(1)
    k = np.arange(N) / (N - 1.0)
    return (1 - alpha) / 2.0 - 0.5 * np.cos(2 * np.pi * k) + alpha / 2.0 * np.cos(4 * np.pi * k)


def ref_blackman_harris(N):
    return sw.blackmanharris(N)


def ref_blackman_nuttall(N):
    return sw.nuttall(N)


def ref_nuttall(N):
    if N == 1:
        return np.ones(1)
    x = 2 * np.pi * np.arange(N) / (N - 1.0)
    return 0.355768 - 0.487396 * np.cos(x) + 0.144232 * np.cos(2 * x) - 0.012604 * np.cos(3 * x)


def ref_bohman(N):
    return sw.bohman(N)


def ref_parzen(N):
    return sw.parzen(N)


def ref_flattop(N, mode='symmetric'):
    return sw.flattop(N, sym=(mode == 'symmetric'))


def ref_bartlett_hann(N):
    return sw.barthann(N)


def ref_tukey(N, r=0.5):
    return sw.tukey(N, r)


def ref_kaiser(N, beta=8.6):
    if N == 1:
        return np.ones(1)
    n = np.arange(N)
    a = (N - 1) / 2.0
    return scipy.special.i0(beta * np.sqrt(np.maximum(0.0, 1 - ((n - a) / a) ** 2))) / scipy.special.i0(beta)


def ref_chebwin(N, attenuation=50):
    return sw.chebwin(N, attenuation)


def ref_taylor(N, nbar=4, sll=-30):
    return sw.taylor(N, nbar, -sll, norm=True)


def ref_poisson(N, alpha=2):
    return np.exp(-alpha * np.abs(_t(N)))


def ref_poisson_hanning(N, alpha=2):
    return sw.hann(N) * np.exp(-alpha * np.abs(_t(N)))


def ref_cosine(N):
    if N == 1:
        return np.ones(1)
    return np.sin(np.pi * np.arange(N) / (N - 1.0))


def ref_gaussian(N, alpha=2.5):
    return np.exp(-0.5 * (alpha * _n(N) / (N / 2.0)) ** 2)


def ref_riesz(N):
    return 1 - np.abs(_t(N)) ** 2


def ref_riemann(N):
    return np.sinc(_t(N))


def ref_cauchy(N, alpha=3):
    return 1.0 / (1.0 + (alpha * _t(N)) ** 2)


def ref_lanczos(N):
    if N == 1:
        return np.ones(1)
    return np.sinc(2 * np.arange(N) / (N - 1.0) - 1)


REFS = {'window_rectangle': ref_rectangle, 'window_hann': ref_hann, 'window_hamming': ref_hamming,
        'window_bartlett': ref_bartlett, 'window_blackman': ref_blackman,
        'window_blackman_harris': ref_blackman_harris, 'window_blackman_nuttall': ref_blackman_nuttall,
        'window_nuttall': ref_nuttall, 'window_bohman': ref_bohman, 'window_parzen': ref_parzen,
        'window_flattop': ref_flattop, 'window_bartlett_hann': ref_bartlett_hann, 'window_tukey': ref_tukey,
        'window_kaiser': ref_kaiser, 'window_chebwin': ref_chebwin, 'window_taylor': ref_taylor,
        'window_poisson': ref_poisson, 'window_poisson_hanning': ref_poisson_hanning,
        'window_cosine': ref_cosine, 'window_gaussian': ref_gaussian, 'window_riesz': ref_riesz,
        'window_riemann': ref_riemann, 'window_cauchy': ref_cauchy, 'window_lanczos': ref_lanczos}
GEN_OF = {}        # window name -> generator function name (filled from the library's own table)


def in_param_domain(gname, kw):
    if gname == 'window_taylor':
        return kw.get('sll', -30) < 0 and kw.get('nbar', 4) >= 2
    if gname == 'window_tukey':
        return 0 <= kw.get('r', 0.5) <= 1
    if gname == 'window_kaiser':
        return kw.get('beta', 8.6) >= 0 and kw.get('method', 'numpy') == 'numpy'
    if gname == 'window_chebwin':
        return kw.get('attenuation', 50) >= 20
    if gname == 'window_flattop':
        return kw.get('mode', 'symmetric') in ('symmetric', 'periodic') and kw.get('precision') is None
    return True


def judge_window(c, gname, N, kw, w, via='generator'):
    feats = {'generator': gname, 'via': via}
    try:
        N = int(N)
    except Exception:
        return c.discard('window:N-domain')
    if N < 1 or not in_param_domain(gname, kw):
        return c.discard('window:parameter-domain')
    w = np.asarray(w)
    periodic = gname == 'window_flattop' and kw.get('mode') == 'periodic'
    if not c.require('window:length', w.shape == (N,), {'len': list(w.shape), 'N': N}, feats):
        return
    if not c.require('window:finite-real', bool(np.isrealobj(w) and np.all(np.isfinite(w))),
                     {'N': N, 'bad': int(np.sum(~np.isfinite(w))) if np.isrealobj(w) else 'complex'}, feats):
        return
    mx = float(np.max(w))
    if not periodic:
        c.compare('window:symmetric', w, w[::-1], 1e-12, feats, scale=max(abs(mx), 1.0), detail={'N': N})
    rkw = {k: v for k, v in kw.items() if k not in ('precision', 'method')}
    ref = REFS[gname](N, **rkw) if gname in REFS else None
    if gname == 'window_taylor' and rkw and ref is not None and float(np.max(ref)) > 1 + 1e-7:
        # Taylor's definition itself is not monotone for large nbar / low sll (scipy's window peaks at
        # 1.00015 for nbar=8, sll=-20); no range is documented, so the generic clause is not applied there
        c.discard('taylor:definition-itself-exceeds-1')
    else:
        c.require('window:max<=1', mx <= 1 + 1e-7, {'max': mx, 'N': N}, feats)
    if N >= 3 and N % 2 == 1 and not periodic:
        centre_applies = True
        if gname == 'window_chebwin':
            centre_applies = ref is not None and int(np.argmax(ref)) == N // 2
        if centre_applies:
            c.compare('window:centre-sample-is-1', w[N // 2], 1.0, 1e-7, feats, scale=1.0, detail={'N': N})
    if N >= 3:
        s = float(np.sum(w))
        if s != 0:
            e = N * float(np.sum(w ** 2)) / s ** 2
            c.require('window:enbw>=1', bool(np.isfinite(e) and e >= 1 - 1e-12), {'enbw': e, 'N': N}, feats)
    if ref is not None and N >= 2:
        c.compare('window:closed-form', w, ref, 1e-10, feats, scale=max(1.0, float(np.max(np.abs(ref)))),
                  detail={'N': N, 'params': kw})


def make_post(gname, pnames):
    # icontract hands over the arguments by name: build a condition with the generator's own signature
    args = ', '.join(['N'] + pnames + ['result'])
    kws = ', '.join("'%s': %s" % (p, p) for p in pnames)
    src = ("def post_%s(%s):\n"
           "    judge_window(_ctx(), '%s', N, {%s}, result)\n") % (gname, args, gname, kws)
    ns = {'judge_window': judge_window, '_ctx': _ctx}
    exec(src, ns)
    return ns['post_%s' % gname]


def post_enbw(data, result):
    c = _ctx()
    try:
        w = np.asarray(data, dtype=float)
    except Exception:
        return c.discard('enbw:domain')
    if w.ndim != 1 or len(w) < 1 or not np.all(np.isfinite(w)) or np.sum(w) == 0:
        return c.discard('enbw:domain')
    ref = len(w) * np.sum(w ** 2) / np.sum(w) ** 2
    c.compare('enbw:definition', result, ref, 1e-12, {'fn': 'enbw'}, scale=abs(ref))


def setup(c):
    import inspect
    W = smod('window')
    for name, g in W.window_names.items():
        GEN_OF[name] = g
    reach.watch(c, {'create_window': W.create_window, 'enbw': W.enbw})
    for g in sorted(set(GEN_OF.values())):
        fn = getattr(W, g)
        pn = [p for p in inspect.signature(fn).parameters if p != 'N']
        install.contract('spectrum.window', g, make_post(g, pn))
    install.contract('spectrum.window', 'enbw', post_enbw)
    reach.cover(c, {'create_window': W.create_window})


GRIDS = {
    'kaiser': [{'beta': b} for b in (0, 0.5, 1, 2.5, 5, 8.6, 12, 20, 30)],
    'blackman': [{'alpha': a} for a in (0, 0.08, 0.16, 0.2, 0.5)],
    'cauchy': [{'alpha': a} for a in (0.5, 1, 3, 4, 7)],
    'gaussian': [{'alpha': a} for a in (0.5, 1, 2.5, 3.5, 6)],
    'poisson': [{'alpha': a} for a in (0, 0.5, 2, 3, 5)],
    'poisson_hanning': [{'alpha': a} for a in (0, 0.5, 1, 2, 4)],
    'tukey': [{'r': r} for r in (0, 0.01, 0.1, 0.25, 0.37, 0.5, 0.75, 0.9, 0.99, 1)],
    'chebwin': [{'attenuation': a} for a in (20, 30, 40, 45, 50, 60, 80, 100, 120)],
    'flattop': [{'mode': 'symmetric'}, {'mode': 'periodic'}],
    'taylor': [{'nbar': nb, 'sll': s} for nb in (2, 3, 4, 6, 8) for s in (-20, -30, -45, -60)] +
              [{'nbar': 5}, {'sll': -40}],
}


def cases(c):
    rng = c.rng('cases')
    W = smod('window')
    names = sorted(W.window_names)
    out = []
    nmax = 128 if c.tier == 'quick' else 512
    for N in range(1, nmax + 1):
        for name in names:
            out.append({'name': name, 'N': N, 'kw': {}, 'directed': N <= 9})
    for name, grid in GRIDS.items():
        for kw in grid:
            for N in ([2, 3, 8, 33, 64] if c.tier == 'quick' else [1, 2, 3, 4, 7, 8, 16, 33, 64, 101, 256]):
                out.append({'name': name, 'N': N, 'kw': kw})
    for i in range(30 if c.tier == 'quick' else 9600):
        name = gen.pick(rng, names)
        hi = 16384 if name not in ('taylor', 'chebwin') else 2048
        out.append({'name': name, 'N': int(rng.integers(513, hi + 1)), 'kw': {}, 'i': i})
    out.append({'name': '*factory*', 'N': 16, 'kw': {}, 'directed': True})
    return out


def run_case(c, d):
    W = smod('window')
    name, N, kw = d['name'], d['N'], dict(d['kw'])
    if name == '*factory*':
        return factory_case(c, W)
    c.set_nontrivial(N >= 3)
    gname = GEN_OF[name]
    feats = {'generator': gname, 'name': name}
    try:
        w = W.create_window(N, name, **kw)
    except Exception as exc:
        c.exception('create_window', exc, feats)
        return
    # the factory output itself (default parameters must be the generator's documented defaults)
    judge_window(c, gname, N, kw, w, via='factory')
    # forwarding: equals the direct call of the generator with exactly these parameters
    try:
        direct = getattr(W, gname)(N, **kw)
        c.compare('factory:forwards-parameters', np.asarray(w), np.asarray(direct), 0.0, feats, scale=1.0)
    except Exception as exc:
        c.exception('generator', exc, feats)
    # history: the caller may do what it likes with the array it was handed; the next request is unaffected
    if N <= 64:
        try:
            w_first = np.array(w, copy=True)
            w *= 0.5
            w += 3.0
            w_again = W.create_window(N, name, **kw)
            judge_window(c, gname, N, kw, w_again, via='factory-second-request')
            c.compare('factory:second-request-unaffected-by-caller-side-changes', np.asarray(w_again), w_first, 0.0, feats, scale=1.0)
            w = w_first
            # the same through Window objects: one object's samples, edited by its owner, are not another object's
            if not kw:
                o1 = W.Window(N, name)
                np.multiply(o1.data, 0.5, out=o1.data)
                o2 = W.Window(N, name)
                c.compare('Window:second-object-unaffected-by-edits-of-the-first', np.asarray(o2.data), w_first, 1e-15, feats, scale=1.0)
        except Exception as exc:
            c.exception('create_window', exc, dict(feats, step='second-request'))
            return
    # aliases give identical arrays
    for a, b in ALIASES:
        if name in (a, b) and not kw:
            other = b if name == a else a
            try:
                w2 = W.create_window(N, other)
                c.compare('alias:identical-arrays', np.asarray(w2), np.asarray(w), 0.0, dict(feats, alias=other), scale=1.0)
            except Exception as exc:
                c.exception('create_window', exc, dict(feats, alias=other))
    # the Window object reports the same samples, length and ENBW; a second object with other
    # parameter values must not see the first one's samples
    kws = [kw]
    if name in GRIDS and (N in (8, 33) or not kw):
        alt = GRIDS[name][(N + len(name)) % len(GRIDS[name])]
        if alt != kw:
            kws.append(alt)
    for kk in kws:
        if not in_param_domain(gname, kk):
            continue
        try:
            obj = W.Window(N, name, **kk)
            wk = np.asarray(W.create_window(N, name, **kk))
        except Exception as exc:
            c.exception('Window', exc, feats)
            continue
        f2 = dict(feats, via='Window')
        c.compare('Window.data-equals-factory', np.asarray(obj.data), wk, 0.0, f2, scale=1.0)
        judge_window(c, gname, N, kk, obj.data, via='Window')
        c.require('Window.N', obj.N == N, {'N': obj.N}, f2)
        s = float(np.sum(wk))
        if s != 0 and np.all(np.isfinite(wk)):
            e = N * float(np.sum(wk ** 2)) / s ** 2
            c.compare('Window.enbw', obj.enbw, e, 1e-12, f2, scale=abs(e))
        # history on the object: looking at its frequency response must not change its samples
        if N <= 64 and np.all(np.isfinite(wk)) and s != 0:
            try:
                _ = obj.response
                _ = obj.frequencies
                _ = str(obj)
                obj.compute_response(norm=True)
                c.compare('Window.data-unchanged-after-reading-the-response', np.asarray(obj.data), wk, 0.0, f2, scale=1.0)
                c.compare('Window.mean_square-after-reading-the-response', obj.mean_square, float(np.sum(wk ** 2)) / N, 1e-12,
                          f2, scale=max(float(np.sum(wk ** 2)) / N, 1e-300))
            except Exception as exc:
                c.exception('Window.response', exc, f2)


DEFAULTS_FOR_MIX = {'beta': 8.6, 'alpha': 2.5, 'r': 0.5, 'attenuation': 50, 'mode': 'symmetric', 'nbar': 4, 'sll': -30,
                    'precision': None}


def factory_case(c, W):
    c.set_nontrivial(True)
    names = sorted(W.window_names)
    c.require('factory:29-window-names', len(names) == 29, {'n': len(names)}, {'fn': 'create_window'})
    for name in names:
        allowed = PARAMS.get(name, [])
        for bad in ('beta', 'alpha', 'r', 'attenuation', 'mode', 'nbar', 'sll', 'foo'):
            if bad in allowed:
                continue
            try:
                W.create_window(16, name, **{bad: 1})
            except ValueError:
                c.ok('factory:rejects-undocumented-parameter')
            except Exception as exc:
                c.exception('create_window', exc, {'name': name, 'param': bad})
            else:
                c.fail('factory:rejects-undocumented-parameter', {'name': name, 'param': bad},
                       {'name': name, 'param': bad})
    # an undocumented parameter is rejected also when it comes together with a documented one
    for name in names:
        allowed = PARAMS.get(name, [])
        if not allowed:
            continue
        good = allowed[0]
        try:
            gv = W.create_window(16, name, **{good: DEFAULTS_FOR_MIX.get(good, 1)})
        except Exception:
            continue
        for bad in ('foo', 'beta', 'alpha', 'precision2'):
            if bad in allowed:
                continue
            try:
                W.create_window(16, name, **{good: DEFAULTS_FOR_MIX.get(good, 1), bad: 1})
            except ValueError:
                c.ok('factory:rejects-undocumented-parameter-next-to-a-documented-one')
            except Exception as exc:
                c.exception('create_window', exc, {'name': name, 'param': bad, 'with': good})
            else:
                c.fail('factory:rejects-undocumented-parameter-next-to-a-documented-one',
                       {'name': name, 'param': bad, 'with': good}, {'name': name, 'param': bad})
    try:
        w = W.create_window(16, None)
        c.compare('factory:default-name-is-rectangle', np.asarray(w), np.ones(16), 0.0, {'fn': 'create_window'}, scale=1.0)
    except Exception as exc:
        c.exception('create_window', exc, {'name': None})
    try:
        W.create_window(16, 'not_a_window')
    except (AssertionError, ValueError, KeyError):
        c.ok('factory:rejects-unknown-name')
    except Exception as exc:
        c.exception('create_window', exc, {'name': 'not_a_window'})
    else:
        c.fail('factory:rejects-unknown-name', {}, {'fn': 'create_window'})


def finish(c):
    install.require_evaluated(c, ['window.enbw', 'window.window_hann', 'window.window_taylor',
                                  'window.window_kaiser', 'window.window_flattop'])
