"""C08 — sampling-rate and scale_by_freq normalisation is uniform.

Contract on arma2psd: every call with the default layout is compared with
(rho/T)|B(f)|^2/|A(f)|^2 evaluated by explicit polynomial sums (no FFT).
Paired-execution traces over the 12 classes: scale_by_freq on vs off (ratio
2*pi/df exactly once), and two sampling rates with scaling off (axis
proportional to fs; AR/MA/ARMA spectra divided by the same factor; Fourier,
multitaper and subspace values unchanged).
"""
import numpy as np

from .. import install, gen, reach, refs, estimators as E
from ..install import ctx as _ctx
from ..bootstrap import smod

NEEDS_NATIVE = True
REPO_TESTS_UNDER_CONTRACTS = True
RULE = ('groups = (class, real/complex, N, NFFT even/odd/None, sampling log-uniform in (1e-2,1e5) or integer-typed, '
        'relation in {scale on/off, two sampling rates}); arma2psd cases = (len A, len B incl. A-only / B-only, '
        'real/complex coefficients, rho, T, NFFT > max length); every case is non-trivial; distinct = distinct descriptor')
ASSUMPTIONS = ['polynomials evaluated by explicit sums on k/NFFT', 'df is read from the object and must equal sampling/NFFT',
               'the minimum-variance class is judged on the scale_by_freq clause only (its fs dependence is C16\'s)']
REQUIRED_ANCHORS = ('arma2psd', 'Spectrum.scale')
MODEL = ['pburg', 'pyule', 'pcovar', 'pmodcovar', 'parma', 'pma']
FLAT = ['Periodogram', 'pcorrelogram', 'MultiTapering', 'pmusic', 'pev']


def post_arma2psd(A, B, rho, T, NFFT, sides, norm, result):
    c = _ctx()
    if sides != 'default' or norm:
        return c.discard('arma2psd:non-default-layout-or-normalised')
    if A is None and B is None:
        return
    try:
        nfft = 4096 if NFFT is None else int(NFFT)
        a = None if A is None else np.asarray(A)
        b = None if B is None else np.asarray(B)
        ok = np.isfinite(rho) and np.isfinite(T) and np.real(rho) > 0 and T > 0
        for v in (a, b):
            if v is not None:
                ok = ok and v.ndim == 1 and np.all(np.isfinite(v)) and len(v) < nfft
    except Exception:
        ok = False
    if not ok:
        return c.discard('arma2psd:domain')
    if nfft > 1024 and (len(a) if a is not None else 0) + (len(b) if b is not None else 0) > 64:
        return c.discard('arma2psd:too-large-for-explicit-sums')
    Af = refs.poly_on_grid(np.concatenate([[1.0], a]), nfft) if a is not None else np.ones(nfft)
    Bf = refs.poly_on_grid(np.concatenate([[1.0], b]), nfft) if b is not None else np.ones(nfft)
    if float(np.min(np.abs(Af))) <= 1e-9 * max(1.0, float(np.max(np.abs(Af)))):
        return c.discard('arma2psd:pole-on-the-grid')
    ref = float(np.real(rho)) / float(T) * np.abs(Bf) ** 2 / np.abs(Af) ** 2
    feats = {'fn': 'arma2psd', 'has_A': a is not None, 'has_B': b is not None,
             'cplx': bool((a is not None and np.iscomplexobj(a)) or (b is not None and np.iscomplexobj(b)))}
    got = np.asarray(result)
    if got.shape != ref.shape or not np.all(np.isfinite(got)):
        return c.fail('arma2psd:equals-(rho/T)|B|^2/|A|^2', {'why': 'shape or non-finite', 'shape': list(got.shape),
                                                            'NFFT': nfft}, feats)
    # per-bin conditioning: A(f) is a sum with absolute rounding error ~eps*sum|a|, so the relative error of
    # 1/|A(f)|^2 is ~eps*sum|a|/|A(f)| (a pole close to the unit circle at a grid frequency is legitimate)
    na = 1.0 + (float(np.sum(np.abs(a))) if a is not None else 0.0)
    nb = 1.0 + (float(np.sum(np.abs(b))) if b is not None else 0.0)
    allowed = 1e-9 + 1e-13 * (na / np.abs(Af) + nb / np.maximum(np.abs(Bf), 1e-300))
    rel = np.abs(got - ref) / np.maximum(ref, 1e-300)
    worst = float(np.max(rel / allowed))
    c.err('arma2psd:relative-error/allowed', worst)
    i = int(np.argmax(rel / allowed))
    c.require('arma2psd:equals-(rho/T)|B|^2/|A|^2', worst <= 1.0,
              {'NFFT': nfft, 'T': T, 'rho': rho, 'bin': i, 'got': got[i], 'ref': ref[i], 'rel_err': float(rel[i]),
               'allowed': float(allowed[i])}, feats)


def setup(c):
    reach.watch(c, {'arma2psd': smod('arma').arma2psd, 'Spectrum.scale': smod('psd').Spectrum.scale,
                    'speriodogram': smod('periodogram').speriodogram, 'minvar': smod('minvar').minvar})
    install.contract('spectrum.arma', 'arma2psd', post_arma2psd)


def draw_fs(rng):
    r = rng.uniform()
    if r < 0.2:
        return int(gen.pick(rng, [1, 2, 8, 1000]))
    return float(10.0 ** rng.uniform(-2, 5))


def cases(c):
    rng = c.rng('cases')
    out = []
    n = 120 if c.tier == 'quick' else 19200
    for cls in E.CLASSES:
        for j in range(n):
            N = int(rng.integers(16, 72))
            params = E.draw(rng, cls, N)
            if cls == 'pburg' and (j // 2) % 2 == 0:
                # an order-selection criterion that usually stops before the (generous) requested order
                params['order'] = int(min(N // 2 - 1, params['order'] + 6))
                params['criteria'] = gen.pick(rng, ['AIC', 'FPE', 'MDL', 'KIC'])
            base = E.min_nfft(cls, params, N)
            NFFT = gen.pick(rng, [None if base <= N else base + 1, base + int(rng.integers(0, 40)), base + 1 + 2 * int(rng.integers(0, 20))])
            out.append({'form': 'class', 'rel': 'scale' if j % 2 == 0 else 'sampling', 'cls': cls, 'p': params, 'N': N,
                        'NFFT': NFFT, 'cplx': int(rng.integers(0, 2)), 'kind': gen.pick(rng, ['noise', 'tones', 'ar']),
                        'fs': draw_fs(rng), 'fs2': draw_fs(rng), 'reuse': ((j // 3) % 4) if j % 3 == 1 else None, 'j': j})
            if j % 8 == 7:
                # a nearby rate (a calibrated clock: 4 parts per million) is another rate
                out[-1]['fs2'] = out[-1]['fs'] * (1.0 + 4e-6)
    # the Daniell periodogram class (13th PSD class of the package): scale_by_freq clause only
    for j in range(40 if c.tier == 'quick' else 9600):
        N = int(rng.integers(32, 100))
        out.append({'form': 'class', 'rel': 'scale', 'cls': 'pdaniell', 'p': {'P': int(rng.integers(1, 4))}, 'N': N,
                    'NFFT': int(N + rng.integers(0, 60)), 'cplx': int(rng.integers(0, 2)), 'kind': 'noise',
                    'fs': draw_fs(rng), 'fs2': 1.0, 'j': j})
    for j in range(1500 if c.tier == 'quick' else 192000):
        la, lb = int(rng.integers(0, 9)), int(rng.integers(0, 9))
        if la == 0 and lb == 0:
            la = 1
        m = max(la, lb)
        out.append({'form': 'arma2psd', 'la': la, 'lb': lb, 'cplx': int(rng.integers(0, 2)),
                    'NFFT': int(gen.pick(rng, [m + 1, m + 2, 16, 17, 64, 101, 256])) if True else 0,
                    'T': float(10.0 ** rng.uniform(-2, 5)), 'rho': float(10.0 ** rng.uniform(-3, 3)),
                    'near_circle': int(gen.pick(rng, [0, 0, 0, 0, 3, 5, 7, 8])), 'j': j})
    return out


def run_case(c, d):
    import spectrum
    if d['form'] == 'arma2psd':
        rng = c.rng(d, 'ab')
        cplx = bool(d['cplx'])
        A = gen.stable_poly(rng, d['la'], cplx)[1:] if d['la'] else None
        if d.get('near_circle') and d['la']:
            # one pole a hair inside the unit circle, exactly at a grid frequency (sharp spectral line)
            NF = max(d['NFFT'], max(d['la'], d['lb']) + 1)
            kbin = int(rng.integers(0, NF)) if cplx else 0
            r0 = 1.0 - 10.0 ** (-d['near_circle'])
            z0 = r0 * np.exp(2j * np.pi * kbin / NF)
            full = np.convolve(np.concatenate([[1.0], A])[:-1] if d['la'] > 1 else [1.0], [1.0, -z0])
            A = (full[1:] if cplx else np.real(full[1:]))
        B = gen.stable_poly(rng, d['lb'], cplx, 0.8)[1:] if d['lb'] else None
        NFFT = max(d['NFFT'], max(d['la'], d['lb']) + 1)
        if d.get('j', 0) % 10 == 7:
            # "all coefficient vectors": first coefficient exactly 1, integer-valued entries
            if A is not None:
                A = np.array(A, copy=True)
                A[0] = 1.0
                if len(A) > 1 and d['j'] % 20 == 7:
                    A[1:] = np.round(2 * A[1:].real)
            if B is not None and d['j'] % 20 == 17:
                B = np.array(B, copy=True)
                B[0] = 1.0
        try:
            spectrum.arma2psd(A=A, B=B, rho=d['rho'], T=d['T'], NFFT=NFFT)
        except Exception as exc:
            c.exception('arma2psd', exc, {'fn': 'arma2psd'})
        return
    cls, N, cplx = d['cls'], d['N'], bool(d['cplx'])
    x = gen.data({'kind': d['kind'], 'N': N, 'cplx': cplx}, c.rng(d, 'x'))
    if np.asarray(x).dtype.kind == 'i':
        x = x.astype(float)
    feats = {'cls': cls, 'cplx': cplx, 'relation': d['rel']}
    fs = d['fs']
    runs = [('base', fs, False), ('scaled', fs, True)] if d['rel'] == 'scale' else [('base', fs, False), ('fs2', d['fs2'], False)]
    log = []
    if cls == 'pdaniell':
        import spectrum
        try:
            pa = np.asarray(spectrum.pdaniell(x, d['p']['P'], NFFT=d['NFFT'], sampling=fs, scale_by_freq=False).psd)
            pb = np.asarray(spectrum.pdaniell(x, d['p']['P'], NFFT=d['NFFT'], sampling=fs, scale_by_freq=True).psd)
        except Exception as exc:
            c.exception('pdaniell', exc, feats)
            return
        factor = 2 * np.pi * d['NFFT'] / float(fs)
        c.compare('scale_by_freq:ratio', pb, pa * factor, 1e-10, feats, scale=float(np.max(pa)) * factor,
                  detail={'N': N, 'NFFT': d['NFFT'], 'fs': fs, 'factor': factor}, pointwise=1e-9)
        return
    prev = None
    for role, f, sc in runs:
        try:
            if d.get('reuse') is None and d.get('j', 0) % 4 == 3 and role != 'base' and prev is not None:
                # the very object that gave the base estimate (already read) gets the new sampling rate / the
                # scale_by_freq flag assigned
                p = prev
                if role == 'fs2':
                    p.sampling = f
                else:
                    p.scale_by_freq = sc
                feats = dict(feats, same_object_reassigned=True)
            elif d.get('reuse') is not None and role != 'base':
                p = E.build_reused(cls, d['p'], x, NFFT=d['NFFT'], fs=f, scale=sc, salt=d['reuse'])
            else:
                p = E.build(cls, d['p'], x, NFFT=d['NFFT'], fs=f, scale=sc)
            log.append({'role': role, 'psd': np.array(p.psd, copy=True), 'df': p.df, 'NFFT': p.NFFT,
                        'freqs': np.asarray(p.frequencies(), dtype=float), 'fs': f, 'error': None})
            prev = p
        except Exception as exc:
            log.append({'role': role, 'error': exc})
    if log[0]['error'] is not None:
        c.discard('base-run-raised:%s' % type(log[0]['error']).__name__)
        return
    if log[1]['error'] is not None:
        c.exception(log[1]['role'], log[1]['error'], feats)
        return
    a, b = log
    det = {'N': N, 'NFFT': a['NFFT'], 'fs': fs, 'params': d['p']}
    for ev in log:
        c.compare('df-is-sampling/NFFT', ev['df'], float(ev['fs']) / ev['NFFT'], 1e-12, feats, scale=float(ev['fs']), detail=det)
    sc0 = float(np.max(np.abs(a['psd']))) or 1.0
    if d['rel'] == 'scale':
        factor = 2 * np.pi / (float(fs) / a['NFFT'])
        charact = None
        if cls == 'MultiTapering':
            def charact(which):
                return which == 'scaled-equals-unscaled' and b['psd'].shape == a['psd'].shape and \
                    float(np.max(np.abs(b['psd'] - a['psd']))) <= 1e-12 * sc0
        c.compare('scale_by_freq:ratio', b['psd'], a['psd'] * factor, 1e-10, feats, scale=sc0 * factor,
                  detail=dict(det, factor=factor), charact=charact, pointwise=1e-9)
        return
    f2 = d['fs2']
    c.compare('frequencies-proportional-to-sampling', b['freqs'] * (float(fs) / float(f2)), a['freqs'], 1e-12, feats,
              scale=float(fs), detail=dict(det, fs2=f2))
    if cls in MODEL:
        c.compare('sampling:model-spectrum-divided-by-the-same-factor', b['psd'] * (float(f2) / float(fs)), a['psd'], 1e-10,
                  feats, scale=sc0, detail=dict(det, fs2=f2), pointwise=1e-9)
    elif cls in FLAT:
        c.compare('sampling:values-do-not-depend-on-sampling', b['psd'], a['psd'], 1e-10, feats, scale=sc0,
                  detail=dict(det, fs2=f2), pointwise=1e-9)
