"""C12 — Yule-Walker models are stable and match the data autocorrelation.

Contracts on aryule and lpc judge every call (including the two chained fits
inside ma()) against an independently computed biased autocorrelation, the
normal equations, numpy.roots and a least-squares fit on the monitor's own
'autocorrelation' data matrix.  The workload adds the pyule class.
"""
import numpy as np

from .. import install, refs, gen, reach
from ..install import ctx as _ctx

REPO_TESTS_UNDER_CONTRACTS = True
RULE = ('cases = (data kind, real/complex, N in 3..200, order in 1..min(N-1,30), container); '
        'non-trivial when order >= 2 and the data are not a pure constant; distinct = distinct descriptor')
ASSUMPTIONS = ['biased autocorrelation computed by the monitor with numpy dot products',
               'singular autocorrelation (lambda_min <= 1e-10 lambda_max) discarded by guard',
               'least-squares comparison guarded by cond(data matrix)^2 <= 1e8',
               'integer data are driven as int64, as float and as int8/int16/int32/uint8/uint16 samples at 60 % of full scale']
REQUIRED_ANCHORS = ('aryule', 'lpc', 'LEVINSON', 'CORRELATION')


def _data_ok(X):
    try:
        x = np.asarray(X)
        return x.ndim == 1 and len(x) >= 2 and np.all(np.isfinite(x)) and np.any(x) and \
            x.dtype.kind in 'fciu'
    except Exception:
        return False


def judge_yw(c, tag, x, order, A, P, k, feats):
    """Shared by the aryule contract and the class-level check."""
    N = len(x)
    r = refs.biased_ac(x, order)
    r0 = float(r[0].real)
    rr = r.copy()
    rr[0] = r0
    T = refs.herm_toeplitz(rr)
    lam = np.linalg.eigvalsh(T)
    if lam[0] <= 1e-10 * lam[-1]:
        c.discard('%s:singular-autocorrelation' % tag)
        return False
    cond = float(lam[-1] / lam[0])
    A = np.asarray(A)
    if A.shape != (order,):
        c.fail('%s:length' % tag, {'len': list(A.shape), 'order': order}, feats)
        return False
    if np.isrealobj(x) and not np.isrealobj(A):
        c.count('observation:%s-complex-dtype-for-real-input' % tag)       # dtype is not in the statement
    a1 = np.concatenate([[1.0], A.astype(complex)])
    lhs = T @ a1
    if P is not None:
        rhs = np.zeros(order + 1, dtype=complex)
        rhs[0] = P
        c.compare('%s:yule-walker-equations' % tag, lhs, rhs, 1e-9, feats,
                  scale=r0 * (1 + float(np.sum(np.abs(A)))), detail={'N': N, 'order': order, 'cond': cond})
        c.require('%s:variance-positive' % tag, bool(np.real(P) > 0), {'P': P}, feats)
    else:
        c.compare('%s:yule-walker-equations' % tag, lhs[1:], np.zeros(order, dtype=complex), 1e-9, feats,
                  scale=r0 * (1 + float(np.sum(np.abs(A)))), detail={'N': N, 'order': order, 'cond': cond})
    rho = refs.max_root_modulus(a1)
    c.require('%s:roots-inside-unit-circle' % tag, rho < 1.0, {'max_root_modulus': rho, 'order': order}, feats)
    if k is not None:
        k = np.asarray(k)
        c.require('%s:reflection-inside-unit-disc' % tag, k.shape == (order,) and bool(np.all(np.abs(k) < 1)),
                  {'k': k[:6]}, feats)
        if k.shape == (order,) and P is not None and np.all(np.abs(k) < 1):
            g = float(np.prod(1.0 / (1 - np.abs(k) ** 2)))
            if g <= 1e6:
                implied = refs.ac_from_rc(k, np.real(P) * g)
                c.compare('%s:model-lags-equal-sample-lags' % tag, implied, r, 1e-10 * max(1.0, g), feats,
                          scale=r0, detail={'order': order, 'g': g})
            else:
                c.discard('%s:model-lags:ill-conditioned' % tag)
    # least squares on the 'autocorrelation' data matrix built by the monitor
    if cond <= 1e8 and N * order <= 200 * 31:
        C = refs.full_data_matrix(np.asarray(x), order)
        als = np.linalg.lstsq(C[:, 1:], -C[:, 0], rcond=None)[0]
        c.compare('%s:equals-least-squares' % tag, A, als if np.iscomplexobj(A) else als.real,
                  1e-9 * max(1.0, cond ** 0.5), feats, scale=1 + float(np.max(np.abs(als))),
                  detail={'order': order, 'cond': cond})
    else:
        c.discard('%s:least-squares:cond-guard' % tag)
    return True


def post_aryule(X, order, norm, result):
    c = _ctx()
    if not _data_ok(X):
        return c.discard('aryule:data-domain')
    x = np.asarray(X)
    if x.dtype.kind in 'iu':
        x = x.astype(float)              # the monitor's arithmetic is floating point whatever the storage type
    if norm != 'biased':
        return c.discard('aryule:norm-not-biased')
    try:
        order = int(order)
    except Exception:
        return c.discard('aryule:order-domain')
    if not (1 <= order < len(x)):
        return c.discard('aryule:order-domain')
    feats = {'fn': 'aryule', 'cplx': bool(np.iscomplexobj(x)), 'dtype': np.asarray(X).dtype.name}
    try:
        A, P, k = result
    except Exception:
        return c.fail('aryule:returns-triple', {'type': str(type(result))}, feats)
    judge_yw(c, 'aryule', x, order, A, P, k, feats)


def post_lpc(x, N, OLD, result):
    c = _ctx()
    x0 = OLD.x0
    if x0 is None or not _data_ok(x0) or np.iscomplexobj(x0):
        return c.discard('lpc:real-data-only')
    m = len(x0)
    p = m - 1 if N is None else int(N)
    if not (1 <= p <= m - 1):
        return c.discard('lpc:order-domain')
    if p > 30:
        return c.discard('lpc:order-above-30')
    feats = {'fn': 'lpc', 'cplx': False}
    try:
        a, e = result
    except Exception:
        return c.fail('lpc:returns-pair', {'type': str(type(result))}, feats)
    judge_yw(c, 'lpc', np.asarray(x0, dtype=float), p, a, None, None, feats)


def _snap_x(x):
    try:
        return np.array(x, copy=True)
    except Exception:
        return None


def setup(c):
    import sys
    import spectrum
    reach.watch(c, {'aryule': spectrum.yulewalker.aryule, 'lpc': sys.modules['spectrum.lpc'].lpc,
                    'LEVINSON': spectrum.levinson.LEVINSON, 'CORRELATION': spectrum.correlation.CORRELATION})
    install.contract('spectrum.yulewalker', 'aryule', post_aryule)
    install.contract('spectrum.lpc', 'lpc', post_lpc, snapshots=[('x0', _snap_x)])


KINDS = ['noise', 'tones', 'trend', 'int', 'dyn', 'ar', 'alt', 'impulse', 'sparse']


def cases(c):
    rng = c.rng('cases')
    out = []
    for N in (3, 4, 5, 8, 9, 31, 32):
        for order in sorted(set([1, 2, N // 2, N - 2, N - 1])):
            if 1 <= order <= min(N - 1, 30):
                for cplx in (0, 1):
                    out.append({'N': N, 'order': order, 'cplx': cplx, 'kind': 'noise', 'cont': 'array',
                                'directed': True})
    for i in range(16 if c.tier == 'quick' else 1600):
        # long records (implementations may switch to an FFT-based correlation with the length)
        out.append({'N': int(rng.integers(513, 900)), 'order': int(rng.integers(1, 12)), 'cplx': int(i % 4 != 0),
                    'kind': gen.pick(rng, ['noise', 'tones', 'ar']), 'cont': 'array', 'amp10': 0, 'i': 4 * i + 3, 'long': True})
    for i in range(1500 if c.tier == 'quick' else 240000):
        N = int(rng.integers(3, 201 if i % 3 == 0 else 64))
        out.append({'N': N, 'order': int(rng.integers(1, min(N - 1, 30) + 1)), 'cplx': int(rng.integers(0, 2)),
                    'kind': gen.pick(rng, KINDS), 'cont': gen.pick(rng, ['array', 'array', 'list']),
                    'amp10': int(gen.pick(rng, [0, 0, 0, -3, -5, -6, 3, 5])), 'i': i})
        if i % 7 == 2 and not out[-1]['cplx']:
            out[-1].update(variant=gen.NARROW[(i // 7) % len(gen.NARROW)], amp10=0)     # wav / ADC samples
        if not out[-1].get('amp10'):
            gen.layout_variant(out[-1], i)
    return out


def run_case(c, d):
    import spectrum
    x = gen.data({'kind': d['kind'], 'N': d['N'], 'cplx': bool(d['cplx']), 'variant': d.get('variant')}, c.rng(d, 'x'))
    if d.get('amp10'):
        x = x * 10.0 ** d['amp10']            # "any non-zero data": the estimator is scale equivariant
    order = d['order']
    c.set_nontrivial(order >= 2)
    feats = {'cplx': bool(d['cplx'])}
    arg = list(x) if d['cont'] == 'list' else x
    arg_copy = np.array(x, copy=True)
    if d.get('i', 0) % 4 == 1:
        # the same record was first fitted with another normalisation / a higher order (results not used)
        for nrm, o in (('unbiased', min(order + 2, d['N'] - 1)), ('biased', min(order + 1, d['N'] - 1))):
            try:
                spectrum.aryule(arg, o, nrm)
            except Exception:
                pass            # an indefinite unbiased sequence may legitimately be refused
    try:
        A, P, k = spectrum.aryule(arg, order)
        kept = (np.array(A, copy=True), np.array(k, copy=True))
    except Exception as exc:
        c.exception('aryule', exc, dict(feats, fn='aryule'))
        return
    if not d['cplx']:
        xf = np.asarray(x, dtype=float)
        try:
            a_lpc, e_lpc = spectrum.lpc(xf.copy(), order)
        except Exception as exc:
            c.exception('lpc', exc, dict(feats, fn='lpc'))
            a_lpc = None
        if d.get('i', 0) % 5 == 0 and 3 <= d['N'] <= 31:
            try:
                spectrum.lpc(xf.copy())              # default order N-1 (judged by the contract)
            except Exception as exc:
                c.exception('lpc', exc, dict(feats, fn='lpc', order='default'))
        if a_lpc is not None:
            r = refs.biased_ac(xf, order)
            lam = np.linalg.eigvalsh(refs.herm_toeplitz(r))
            if lam[0] > 1e-10 * lam[-1]:
                c.compare('lpc-equals-aryule', np.asarray(a_lpc), np.asarray(A), 1e-9 * max(1.0, (lam[-1] / lam[0]) ** 0.5),
                          dict(feats, fn='lpc'), scale=1 + float(np.max(np.abs(A))))
    # history: the same container, refilled in place, is a new input (the contract judges the call)
    if d['cont'] == 'array' and np.asarray(x).dtype.kind in 'fc' and np.asarray(x).flags.writeable:
        x2 = gen.data({'kind': 'noise', 'N': d['N'], 'cplx': bool(d['cplx'])}, c.rng(d, 'x2'))
        x[:] = x2
        try:
            A2, P2, k2 = spectrum.aryule(x, max(1, order - 1))
        except Exception as exc:
            c.exception('aryule', exc, dict(feats, fn='aryule'))
        x[:] = np.asarray(arg_copy)
    # what a call returned stays what it returned after later calls on other records of the same size
    if d.get('i', 0) % 4 == 2:
        try:
            spectrum.aryule(gen.noise(c.rng(d, 'other'), d['N'], bool(d['cplx'])), order)
            c.require('aryule:earlier-result-unchanged-by-a-later-call',
                      np.array_equal(np.asarray(A), kept[0]) and np.array_equal(np.asarray(k), kept[1]), {}, dict(feats, fn='aryule'))
        except Exception as exc:
            c.exception('aryule', exc, dict(feats, fn='aryule'))
    # class form
    try:
        p = spectrum.pyule(arg, order, NFFT=max(64, 2 * d['N']))
        p()
        ar, refl = p.ar, p.reflection
    except Exception as exc:
        c.exception('pyule', exc, dict(feats, fn='pyule'))
        return
    c.compare('pyule.ar-equals-function', np.asarray(ar), np.asarray(A), 1e-12, dict(feats, fn='pyule'),
              scale=1 + float(np.max(np.abs(A))))
    c.compare('pyule.reflection-equals-function', np.asarray(refl), np.asarray(k), 1e-12, dict(feats, fn='pyule'),
              scale=1.0)


def finish(c):
    install.require_evaluated(c, ['yulewalker.aryule', 'lpc.lpc'])
