"""C04 — frequency-shift covariance and conjugate symmetry of two-sided spectra.

Paired-execution trace monitor over the 12 classes: each group runs the real
estimator on x and on a transformed copy (modulated on the NFFT grid,
conjugated, declared complex, conjugated + time-reversed), appends one event
per execution and the offline checker applies roll / mirror / 2x-first-half /
equality.  The minvar psi probe of C16 is installed as well.
"""
import numpy as np

from .. import gen, reach, refs, estimators as E
from ..bootstrap import smod
from . import c16

NEEDS_NATIVE = True
RULE = ('groups = (relation in {shift by m bins, conjugate mirror, real = 2x first half of the complex-declared '
        'estimate, time reversal}, class, N, NFFT even/odd >= admissible minimum, integer shift m incl. NFFT/2 and '
        'NFFT-1, data kind, orders in domain); two executions per group; every group is non-trivial; '
        'distinct = distinct descriptor')
ASSUMPTIONS = ['the modulation is on the NFFT grid (statement)',
               'time reversal is asked only of the seven estimators the statement lists, with NFFT >= N',
               'the 2x-first-half clause is asked only of the AR/MA/ARMA, minimum-variance and multitaper classes',
               'MUSIC/EV are compared on 1/psd (the pseudo-spectrum has poles) at 1e-6; parma/pma at 1e-6; others 1e-8']
REQUIRED_ANCHORS = ('arma2psd', 'minvar')
REVERSIBLE = ['Periodogram', 'pcorrelogram', 'pyule', 'pburg', 'pmodcovar', 'MultiTapering', 'pminvar']
HALF = ['pburg', 'pyule', 'pcovar', 'pmodcovar', 'parma', 'pma', 'pminvar', 'MultiTapering']


def setup(c):
    mv = smod('minvar').minvar
    reach.watch(c, {'arma2psd': smod('arma').arma2psd, 'minvar': mv, 'LEVINSON': smod('levinson').LEVINSON,
                    'CORRELATION': smod('correlation').CORRELATION, 'arburg': smod('burg').arburg})
    reach.probe('minvar-psi', mv, 'psi = fft(psi, NFFT)', c16._probe_psi)


def cases(c):
    rng = c.rng('cases')
    out = []
    n = 40 if c.tier == 'quick' else 9600
    for cls in E.CLASSES:
        rels = ['shift', 'conj'] + (['half'] if cls in HALF else []) + (['reverse'] if cls in REVERSIBLE else [])
        for rel in rels:
            for j in range(n):
                N = int(rng.integers(16, 72))
                if j % 20 == 19 and cls in ('Periodogram', 'pyule', 'pcorrelogram'):      # (two separately fitted ARMA / MA models of a long trend record differ by more than their conditioning estimate allows)
                    N = int(rng.integers(513, 800))            # long records
                params = E.draw(rng, cls, N)
                nf0 = max(E.min_nfft(cls, params, N), N if (cls in ('Periodogram', 'MultiTapering') or rel == 'reverse') else 0)
                NFFT = int(nf0 + rng.integers(0, 40))
                if j % 2:
                    NFFT += (NFFT + j // 2) % 2           # alternate parity
                m = int(gen.pick(rng, [1, 5, -7, NFFT // 2, NFFT - 1, int(rng.integers(-NFFT, NFFT))]))
                out.append({'rel': rel, 'cls': cls, 'p': params, 'N': N, 'NFFT': NFFT, 'm': m,
                            'kind': gen.pick(rng, ['noise', 'tones', 'ar', 'trend']), 'fs': gen.pick(rng, [1.0, 2.0, 100.0]),
                            'cplx': 0 if rel == 'half' else (1 if rel in ('shift', 'conj') else int(rng.integers(0, 2))),
                            'reuse': ((j // 3) % 4) if j % 3 == 1 else None, 'j': j})
    return out


def run_case(c, d):
    cls, rel, NFFT, N, m = d['cls'], d['rel'], d['NFFT'], d['N'], d['m']
    x = gen.data({'kind': d['kind'], 'N': N, 'cplx': bool(d['cplx'])}, c.rng(d, 'x'))
    if np.asarray(x).dtype.kind == 'i':
        x = x.astype(float)
    n = np.arange(N)
    if rel == 'shift':
        y = x * np.exp(2j * np.pi * m * n / NFFT)
    elif rel == 'conj':
        y = np.conj(x)
    elif rel == 'half':
        y = x.astype(complex)
    else:
        y = np.conj(x[::-1]).copy()
    feats = {'cls': cls, 'relation': rel, 'nfft_odd': bool(NFFT % 2)}
    log = []
    prebuilt = {}
    if d.get('reuse') is None and d.get('j', 0) % 6 == 2 and rel in ('shift', 'conj') and np.iscomplexobj(x):
        # the caller produces the transformed record in its own work buffer, in place, after the first (lazily
        # evaluated) object was constructed on that buffer and before either is read
        try:
            buf = np.array(x, copy=True)
            prebuilt['x'] = E.build(cls, d['p'], buf, NFFT=NFFT, fs=d['fs'], scale=False)
            if rel == 'shift':
                buf *= np.exp(2j * np.pi * m * n / NFFT)
            else:
                np.conj(buf, out=buf)
            prebuilt[rel] = E.build(cls, d['p'], buf, NFFT=NFFT, fs=d['fs'], scale=False)
            feats = dict(feats, caller_recycles_its_buffer=True)
        except Exception as exc:
            c.exception('transformed-run', exc, feats)
            return
    for role, data in (('x', x), (rel, y)):
        try:
            if role in prebuilt:
                p = prebuilt[role]
            elif d.get('reuse') is not None and role != 'x':
                p = E.build_reused(cls, d['p'], data, NFFT=NFFT, fs=d['fs'], scale=False, salt=d['reuse'])
            else:
                p = E.build(cls, d['p'], data, NFFT=NFFT, fs=d['fs'], scale=False)
            log.append({'role': role, 'psd': np.array(p.psd, copy=True), 'sides': p.sides, 'error': None})
            # the object is short lived (as in a helper that returns only the values): nothing the next object does
            # may depend on what a dead one left behind (module-level caches keyed by addresses that get recycled)
            p = None
            prebuilt.pop(role, None)
        except Exception as exc:
            log.append({'role': role, 'psd': None, 'error': exc})
    if log[0]['error'] is not None:
        c.discard('base-run-raised:%s' % type(log[0]['error']).__name__)
        return
    if log[1]['error'] is not None:
        c.exception('transformed-run', log[1]['error'], feats)
        return
    a, b = log[0]['psd'], log[1]['psd']
    if rel == 'shift':
        ref = np.roll(a, m)
    elif rel == 'conj':
        ref = np.roll(a[::-1], 1)              # bin k <-> bin -k mod NFFT
    elif rel == 'half':
        L = refs.onesided_len(NFFT)
        if not c.require('real=2x-half:lengths', a.shape == (L,) and b.shape == (NFFT,),
                         {'onesided': list(a.shape), 'twosided': list(b.shape), 'NFFT': NFFT}, feats):
            return
        a, b, ref = a, a, 2 * b[:L]
        b = log[0]['psd']
    else:
        ref = a
    got = b
    det = {'N': N, 'NFFT': NFFT, 'm': m, 'params': d['p']}
    if cls in ('pmusic', 'pev'):
        with np.errstate(divide='ignore'):
            got, ref = 1.0 / got, 1.0 / ref
        tol = 1e-6
    else:
        tol = E.cond_tol(cls, ref, E.rel_tol(cls))
    name = {'shift': 'shift:two-sided-estimate-rotates-by-m-bins', 'conj': 'conjugation:mirrors-bin-k-to-minus-k',
            'half': 'real:one-sided-equals-2x-first-half-of-complex-declared-estimate',
            'reverse': 'time-reversal:same-spectrum'}[rel]
    c.compare(name, got, ref, tol, feats, scale=float(np.max(np.abs(ref))) or 1.0, detail=det, pointwise=1e-6)
