"""C03 — estimates are quadratic in signal amplitude.

Paired-execution trace monitor: every group runs the real estimator (function
or class) on x and on c*x; one event per execution is appended to the log
(role, outputs) and the offline checker compares each output with
|c|^p * output(x), p in {0, 1, 2} (or c itself for the eigenspectra).
The subspace dimension actually used by eigen() is observed with a contract on
its internal _get_signal_space.
"""
import numpy as np

from .. import install, refs, gen, reach, estimators as E
from ..install import ctx as _ctx
from ..bootstrap import smod
from .c13 import burg_ref

NEEDS_NATIVE = True
RULE = ('groups = (estimator in function or class form, data kind, real/complex, N, orders/lags/NFFT in '
        'domain, scalar c with 1e-3 <= |c| <= 1e3 (complex c for complex data)); each group is two executions '
        '(x, c*x); non-trivial when |c| != 1; distinct = distinct descriptor')
ASSUMPTIONS = ['c never changes the data type (real data get real c)',
               'criterion / AIC / MDL / threshold decisions are compared only when the decision margin computed by '
               'the monitor is above rounding (1e-9 relative)',
               'relative tolerance 1e-9 (1e-6 for the two chained least-squares fits of ma/arma_estimate)']
REQUIRED_ANCHORS = ('arma2psd', 'arburg', 'eigen', 'pmtm', 'speriodogram')
_nsig_seen = []

FUNCS = ['speriodogram', 'CORRELOGRAMPSD', 'CORRELATION', 'xcorr', 'arburg', 'aryule', 'arcovar', 'arcovar_marple',
         'modcovar', 'modcovar_marple', 'arma_estimate', 'ma', 'minvar', 'music', 'ev', 'pmtm']
CRITERIA = ['AIC', 'AICc', 'KIC', 'FPE', 'AKICc', 'MDL']


def post_get_signal_space(result):
    _nsig_seen.append(int(result))


def setup(c):
    reach.watch(c, {'arma2psd': smod('arma').arma2psd, 'arburg': smod('burg').arburg, 'eigen': smod('eigenfre').eigen,
                    'pmtm': smod('mtm').pmtm, 'speriodogram': smod('periodogram').speriodogram,
                    '_get_signal_space': smod('eigenfre')._get_signal_space})
    install.contract('spectrum.eigenfre', '_get_signal_space', post_get_signal_space)


def crit_values(name, N, rho):
    """The six criteria, written out (k = 0..len(rho)-1)."""
    k = np.arange(len(rho), dtype=float)
    rho = np.asarray(rho, dtype=float)
    with np.errstate(divide='ignore', invalid='ignore'):
        if name == 'AIC':
            return N * np.log(rho) + 2 * (k + 1)
        if name == 'AICc':
            return np.log(rho) + 2 * (k + 1) / (N - k - 2)
        if name == 'KIC':
            return np.log(rho) + 3 * (k + 1) / N
        if name == 'FPE':
            return rho * (N + k + 1) / (N - k - 1)
        if name == 'AKICc':
            return np.log(rho) + k / N / (N - k) + (3 - (k + 2) / N) * (k + 1) / (N - k - 2)
        if name == 'MDL':
            return N * np.log(rho) + k * np.log(N)
    raise ValueError(name)


def criterion_margin(name, x, order):
    kref, rho, _ = burg_ref(x, order)
    v = crit_values(name, len(x), rho)
    v = v[np.isfinite(v)]
    if len(v) < 2:
        return 0.0
    d = np.abs(np.diff(v)) / np.maximum(np.abs(v[1:]), 1e-300)
    return float(np.min(d))


FOURIER = ('speriodogram', 'CORRELOGRAMPSD', 'CORRELATION', 'xcorr', 'pmtm', 'Periodogram', 'pcorrelogram',
           'MultiTapering')


def kinds_for(name):
    # 60 dB-SNR ('dyn') data make every model fit ill-conditioned: rounding differences between the two
    # runs are then amplified beyond any fixed tolerance, so that class is driven through the Fourier
    # estimators only (the amplitude range 1e-3..1e3 is covered by c for all of them)
    return ['noise', 'tones', 'ar', 'dyn'] if name in FOURIER else ['noise', 'tones', 'ar']


def draw_c(rng, cplx, i):
    fixed = [1e-3, 0.5, -2.0, 7.0, 1e3]
    if cplx:
        fixed += [2j, 3 * np.exp(0.7j), -1j * 1e-2]
    if i % 3 == 0:
        return fixed[(i // 3) % len(fixed)]
    mag = 10.0 ** rng.uniform(-3, 3)
    if cplx:
        return complex(mag * np.exp(2j * np.pi * rng.uniform()))
    return float(mag * rng.choice([-1.0, 1.0]))


def cases(c):
    rng = c.rng('cases')
    out = []
    nf = 70 if c.tier == 'quick' else 14400
    i = 0
    for fn in FUNCS:
        for j in range(nf):
            cplx = int(rng.integers(0, 2))
            N = int(rng.integers(16, 80))
            d = {'form': 'function', 'fn': fn, 'cplx': cplx, 'N': N, 'kind': gen.pick(rng, kinds_for(fn)), 'j': j}
            cc = draw_c(rng, cplx, i)
            d['c'] = [float(np.real(cc)), float(np.imag(cc))]
            if fn == 'speriodogram':
                d['p'] = {'window': gen.pick(rng, E.WINDOWS_SAFE), 'NFFT': int(gen.pick(rng, gen.nfft_options(N)))}
            elif fn == 'CORRELOGRAMPSD':
                lag = int(rng.integers(2, N // 2))
                d['p'] = {'lag': lag, 'window': gen.pick(rng, E.WINDOWS_SAFE), 'norm': gen.pick(rng, ['biased', 'unbiased']),
                          'NFFT': 2 * lag + 1 + int(rng.integers(0, 40)), 'method': gen.pick(rng, ['xcorr', 'CORRELATION'])}
            elif fn in ('CORRELATION', 'xcorr'):
                d['p'] = {'maxlags': int(rng.integers(0, N)), 'norm': gen.pick(rng, ['biased', 'unbiased', 'coeff', None])}
            elif fn == 'arburg':
                d['p'] = {'order': int(rng.integers(1, min(N - 2, 14))), 'criteria': gen.pick(rng, [None] + CRITERIA)}
            elif fn == 'aryule':
                d['p'] = {'order': int(rng.integers(1, 14))}
            elif fn in ('arcovar', 'arcovar_marple', 'modcovar', 'modcovar_marple'):
                d['p'] = {'order': int(rng.integers(1, min(N // 3, 10) + 1))}
            elif fn == 'arma_estimate':
                d['p'] = E.draw(rng, 'parma', N)
            elif fn == 'ma':
                d['p'] = E.draw(rng, 'pma', N)
            elif fn == 'minvar':
                m = int(rng.integers(2, min(N // 2, 10) + 1))
                d['p'] = {'order': m, 'NFFT': 2 * m + int(rng.integers(0, 60)), 'fs': gen.pick(rng, [1.0, 2.0, 100.0])}
            elif fn in ('music', 'ev'):
                P = int(rng.integers(3, min(N // 3, 12) + 1))
                sel = gen.pick(rng, ['nsig', 'nsig', 'threshold', 'aic', 'mdl'])
                d['p'] = {'P': P, 'select': sel, 'NSIG': int(rng.integers(0, P)), 'NFFT': int(gen.pick(rng, [64, 100, 65]))}
            elif fn == 'pmtm':
                d['p'] = {'NW': float(gen.pick(rng, [2, 2.5, 3, 4])), 'k': gen.pick(rng, [None, 2, 3]),
                          'NFFT': gen.pick(rng, [None, N, 2 * N + 1]), 'method': gen.pick(rng, ['adapt', 'eigen', 'unity'])}
            out.append(d)
            i += 1
    # high-SNR / large-dynamic-range data through the model-based estimators: values are too
    # ill-conditioned to compare, but an estimator that accepts x must also accept c*x
    extra = []
    for d0 in out:
        if d0['fn'] not in FOURIER and d0['j'] % 4 == 0:
            d1 = dict(d0, kind='dyn', exc_only=True)
            extra.append(d1)
    out += extra
    ncl = 60 if c.tier == 'quick' else 12000
    for cls in E.CLASSES:
        for j in range(ncl):
            cplx = int(rng.integers(0, 2))
            N = int(rng.integers(16, 80))
            params = E.draw(rng, cls, N)
            if cls == 'pburg' and j % 2:
                params['criteria'] = gen.pick(rng, CRITERIA)
            if cls in ('pmusic', 'pev') and j % 3 == 0:
                params.pop('NSIG')
                params['criteria'] = gen.pick(rng, ['aic', 'mdl'])
            nf0 = max(E.min_nfft(cls, params, N), N if cls in ('Periodogram', 'MultiTapering') else 0)
            NFFT = gen.pick(rng, [None if nf0 <= N else nf0, nf0 + int(rng.integers(0, 50))])
            cc = draw_c(rng, cplx, i)
            dcl = {'form': 'class', 'cls': cls, 'cplx': cplx, 'N': N, 'kind': gen.pick(rng, kinds_for(cls)),
                   'reuse': ((j // 3) % 4) if j % 3 == 1 else None,
                   # every 6th class case: x and c*x are produced one after the other in the caller's own work
                   # buffer (buf *= c) and the two lazily evaluated objects are read afterwards
                   'workbuf': j % 6 == 2,
                   'p': params, 'NFFT': NFFT, 'fs': gen.pick(rng, [1.0, 2.0, 1000.0]),
                   'c': [float(np.real(cc)), float(np.imag(cc))], 'j': j}
            if cplx and j % 5 == 0:
                dcl['line'] = gen.pick(rng, ['real-axis', 'imag-axis'])
                cr = gen.pick(rng, [2j, -1j, 3 * np.exp(0.7j), 0.01j])
                dcl['c'] = [float(np.real(cr)), float(np.imag(cr))]
            out.append(dcl)
            i += 1
    # nearly predictable records at small amplitude (tone + noise at -110 dB, c = 1e-3): a valid but tiny prediction
    # error power (~1e-17) must not be mistaken for a non-positive one - an estimator that accepts x accepts c*x
    for j, (N, order, cplx) in enumerate([(40, 2, 1), (64, 3, 1), (32, 2, 0), (48, 4, 0), (56, 1, 1), (36, 3, 1)]):
        base = {'cplx': cplx, 'N': N, 'kind': 'tones', 'snr_db': 110.0, 'j': j, 'c': [1e-3, 0.0], 'exc_only': True,
                'directed': True}
        out.append(dict(base, form='function', fn='arburg', p={'order': order, 'criteria': None}))
        out.append(dict(base, form='function', fn='minvar', p={'order': order + 1, 'NFFT': 64, 'fs': 1.0}))
        out.append(dict(base, form='class', cls='pburg', p={'order': order}, NFFT=64, fs=1.0, reuse=None))
        out.append(dict(base, form='class', cls='pminvar', p={'order': order + 1}, NFFT=64, fs=1.0, reuse=None))
    # large subspace dimension with an order-selection rule, at both ends of the amplitude range: products / sums of
    # ~60 singular values must not under- or overflow into a different decision
    for j, (N, P, cplx, snr, cc) in enumerate([(160, 60, 1, 60.0, 1e-3), (160, 60, 0, 40.0, 1e-3), (150, 50, 1, 60.0, 1e3),
                                              (128, 40, 0, 60.0, 1e-3), (160, 60, 1, 20.0, 1e3), (140, 56, 1, 80.0, 1e-3)]):
        for sel in ('mdl', 'aic'):
            for fn in ('music', 'ev'):
                out.append({'form': 'function', 'fn': fn, 'cplx': cplx, 'N': N, 'kind': 'tones', 'snr_db': snr, 'j': j,
                            'c': [cc, 0.0], 'p': {'P': P, 'select': sel, 'NSIG': 2, 'NFFT': 128}, 'directed': j < 2})
    # order selection by a criterion on small-amplitude, well-conditioned records (criteria take log(rho): an absolute
    # floor under the logarithm makes the chosen order depend on the unit of the data)
    for j, (N, order, cplx) in enumerate([(64, 8, 0), (80, 10, 1), (48, 6, 0), (96, 12, 1)]):
        for crit in ('AIC', 'KIC', 'MDL', 'FPE'):
            base = {'cplx': cplx, 'N': N, 'kind': 'ar', 'j': j, 'amp': 1e-7, 'c': [1e-3, 0.0], 'directed': j == 0}
            out.append(dict(base, form='function', fn='arburg', p={'order': order, 'criteria': crit}))
            out.append(dict(base, form='class', cls='pburg', p={'order': order, 'criteria': crit}, NFFT=64, fs=1.0, reuse=None))
    # subspace selection by threshold on small-amplitude records (a threshold compares singular-value *ratios*)
    for j, (N, P, cplx, amp) in enumerate([(64, 8, 1, 1e-6), (48, 6, 0, 1e-6), (80, 10, 1, 1e-7), (40, 5, 0, 1e-5)]):
        for fn in ('music', 'ev'):
            out.append({'form': 'function', 'fn': fn, 'cplx': cplx, 'N': N, 'kind': 'tones', 'snr_db': 30.0, 'j': j, 'amp': amp,
                        'c': [1e-3, 0.0], 'p': {'P': P, 'select': 'threshold', 'NSIG': 2, 'NFFT': 64}, 'directed': True})
            out.append({'form': 'class', 'cls': 'p' + fn, 'cplx': cplx, 'N': N, 'kind': 'tones', 'snr_db': 30.0, 'j': j, 'amp': amp,
                        'c': [1e-3, 0.0], 'p': {'P': P, 'threshold': 1.5}, 'NFFT': 64, 'fs': 1.0, 'reuse': None, 'directed': True})
    # low-power records through the adaptive multitaper (its stop rule must scale with the record power):
    # amplitude 0.1, c = 1e-3, default and long NFFT
    for j, (N, NFFT, cplx) in enumerate([(32, None, 0), (48, 1024, 1), (64, 1024, 0), (40, None, 1), (24, 512, 0), (72, 2048, 1)]):
        for form in ('function', 'class'):
            d = {'form': form, 'cplx': cplx, 'N': N, 'kind': gen.pick(rng, ['noise', 'ar', 'tones']), 'j': j, 'amp': 0.1,
                 'c': [1e-3, 0.0], 'directed': True}
            if form == 'function':
                d.update(fn='pmtm', p={'NW': 2.5, 'k': 4, 'NFFT': NFFT, 'method': 'adapt'})
            else:
                d.update(cls='MultiTapering', p={'NW': 2.5, 'k': 4, 'method': 'adapt'}, NFFT=NFFT, fs=1.0, reuse=None)
            out.append(d)
    return out


def run_function(fn, p, x):
    """Returns {output name: (value, power)}; power p means the value scales with |c|^p; 'lin' with c."""
    import spectrum
    if fn == 'speriodogram':
        return {'psd': (spectrum.speriodogram(x, NFFT=p['NFFT'], detrend=False, scale_by_freq=False, window=p['window']), 2)}
    if fn == 'CORRELOGRAMPSD':
        return {'psd': (spectrum.CORRELOGRAMPSD(x, lag=p['lag'], window=p['window'], norm=p['norm'], NFFT=p['NFFT'],
                                                correlation_method=p['method']), 2)}
    if fn == 'CORRELATION':
        return {'r': (spectrum.CORRELATION(x, maxlags=p['maxlags'], norm=p['norm']), 0 if p['norm'] == 'coeff' else 2)}
    if fn == 'xcorr':
        r, l = spectrum.xcorr(x, maxlags=p['maxlags'], norm=p['norm'])
        return {'r': (r, 0 if p['norm'] == 'coeff' else 2), 'lags': (l, 0)}
    if fn == 'arburg':
        a, rho, k = spectrum.arburg(x, p['order'], p['criteria'])
        return {'order_selected': (np.array([len(k)]), 0), 'a': (a, 0), 'rho': (rho, 2), 'reflection': (k, 0)}
    if fn == 'aryule':
        a, P, k = spectrum.aryule(x, p['order'])
        return {'a': (a, 0), 'rho': (P, 2), 'reflection': (k, 0)}
    if fn == 'arcovar':
        a, e = spectrum.arcovar(x, p['order'])
        return {'a': (a, 0), 'e': (e, 2)}
    if fn == 'modcovar':
        a, e = spectrum.modcovar(x, p['order'])
        return {'a': (a, 0), 'e': (e, 2)}
    if fn == 'arcovar_marple':
        af, pf, ab, pb, pbv = spectrum.arcovar_marple(x, p['order'])
        return {'af': (af, 0), 'pf': (pf, 2), 'ab': (ab, 0), 'pb': (pb, 2)}
    if fn == 'modcovar_marple':
        A, P, Pv = spectrum.modcovar_marple(x, p['order'])
        return {'a': (A, 0), 'P': (P, 2)}
    if fn == 'arma_estimate':
        a, b, rho = spectrum.arma_estimate(x, p['P'], p['Q'], p['lag'])
        return {'a': (a, 0), 'b': (b, 0), 'rho': (rho, 2)}
    if fn == 'ma':
        b, rho = spectrum.ma(x, p['Q'], p['M'])
        return {'b': (b, 0), 'rho': (rho, 2)}
    if fn == 'minvar':
        psd, A, k = spectrum.minvar(x, p['order'], sampling=p['fs'], NFFT=p['NFFT'])
        return {'psd': (psd, 2), 'A': (A, 0), 'reflection': (k, 0)}
    if fn in ('music', 'ev'):
        kw = {}
        if p['select'] == 'nsig':
            kw['NSIG'] = p['NSIG']
        elif p['select'] == 'threshold':
            kw['threshold'] = 1.5
        else:
            kw['criteria'] = p['select']
        del _nsig_seen[:]
        psd, S = getattr(spectrum, fn)(x, p['P'], NFFT=p['NFFT'], **kw)
        out = {'psd': (psd, 0 if fn == 'music' else 1), 'singular_values': (S, 1)}
        if _nsig_seen:
            out['subspace_dimension_used'] = (np.array([_nsig_seen[-1]]), 0)
        return out
    if fn == 'pmtm':
        Sk, w, lam = spectrum.pmtm(x, NW=p['NW'], k=p['k'], NFFT=p['NFFT'], method=p['method'])
        return {'eigenspectra': (Sk, 'lin'), 'weights': (np.asarray(w, dtype=complex if np.iscomplexobj(w) else float), 0),
                'eigenvalues': (lam, 0)}
    raise ValueError(fn)


def run_class(cls, p, x, NFFT, fs, reuse=None, obj=None, prebuilt=None):
    del _nsig_seen[:]
    if prebuilt is not None:
        obj = prebuilt
    elif obj is not None:
        obj.data = np.array(x, copy=True)        # the very object that estimated x now gets c*x
    elif reuse is not None:
        obj = E.build_reused(cls, p, x, NFFT=NFFT, fs=fs, scale=False, salt=reuse)
    else:
        obj = E.build(cls, p, x, NFFT=NFFT, fs=fs, scale=False)
    psd = np.asarray(obj.psd)
    out = {'psd': (psd, 0 if cls == 'pmusic' else 1 if cls == 'pev' else 2)}
    powers = {'ar': 0, 'ma': 0, 'rho': 2, 'reflection': 0, 'eigenvalues': 1 if cls in ('pmusic', 'pev') else 0, 'weights': 0}
    for k, v in E.exposed(obj).items():
        out[k] = (v, powers[k])
    if cls in ('pmusic', 'pev') and _nsig_seen:
        out['subspace_dimension_used'] = (np.array([_nsig_seen[-1]]), 0)
    out['__obj__'] = (obj, None)
    return out


def decision_margin_ok(d, x):
    """False when a data-driven order / subspace decision sits within rounding of a tie."""
    p = d['p']
    name = d.get('fn') or d.get('cls')
    if name in ('arburg', 'pburg') and p.get('criteria'):
        return criterion_margin(p['criteria'], x, p['order']) > 1e-9
    if name in ('music', 'ev', 'pmusic', 'pev'):
        sel = p.get('select') or ('nsig' if p.get('NSIG') is not None else p.get('criteria', 'aic'))
        if sel == 'nsig':
            return True
        from .c17 import fb_matrix
        P = p['P']
        NP = len(x) - P
        S = np.linalg.svd(fb_matrix(x, P, NP), compute_uv=False)
        if sel == 'threshold':
            r = S / (1.5 * S[-1])
            return float(np.min(np.abs(r - 1))) > 1e-9
        n = len(S)
        vals = []
        for k in range(n - 1):
            ak = np.sum(S[k + 1:]) / (n - k)
            gk = np.prod(S[k + 1:] ** (1.0 / (n - k)))
            base = -(n - k) * (2 * NP * 2) * np.log(gk / ak)
            vals.append(2 * base + 2.0 * k * (2 * n - k) if sel == 'aic' else base + 0.5 * k * (2 * n - k) * np.log(2 * NP * 2))
        v = np.sort(np.asarray(vals))
        return len(v) < 2 or (v[1] - v[0]) > 1e-9 * max(abs(v[0]), 1.0)
    return True


def run_case(c, d):
    cplx = bool(d['cplx'])
    cc = complex(d['c'][0], d['c'][1]) if cplx else float(d['c'][0])
    dd = {'kind': d['kind'], 'N': d['N'], 'cplx': cplx and not d.get('line')}
    if 'snr_db' in d:
        dd.update(snr_db=d['snr_db'], K=1)
    x = gen.data(dd, c.rng(d, 'x'))
    if np.asarray(x).dtype.kind == 'i':
        x = x.astype(float)
    if d.get('amp'):
        x = x * d['amp']
    if d.get('j', 0) % 7 in (5, 6) and not d.get('workbuf') and not d.get('line'):
        x = gen.variant(x, gen.LAYOUTS[d['j'] % 7 - 5])       # handed over as a non-contiguous view / read-only array
    if d.get('line') == 'real-axis':
        x = x.astype(complex)                 # complex-typed samples that all lie on the real axis
    elif d.get('line') == 'imag-axis':
        x = 1j * x.astype(complex)
    c.set_nontrivial(abs(abs(cc) - 1) > 1e-12)
    name = d.get('fn') or d['cls']
    feats = {'form': d['form'], 'cls' if d['form'] == 'class' else 'fn': name, 'cplx': cplx,
             'complex_c': bool(cplx and abs(np.imag(cc)) > 0)}
    log = []            # the event log of this group

    prebuilt = {}
    if d['form'] == 'class' and d.get('workbuf'):
        try:
            buf = np.array(x, copy=True)
            prebuilt['x'] = E.build(d['cls'], d['p'], buf, NFFT=d['NFFT'], fs=d['fs'], scale=False)
            buf *= cc                      # the caller recycles its buffer; the first object has not been read yet
            prebuilt['c*x'] = E.build(d['cls'], d['p'], buf, NFFT=d['NFFT'], fs=d['fs'], scale=False)
            feats = dict(feats, caller_recycles_its_buffer=True)
        except Exception as exc:
            c.exception('scale', exc, feats)
            return

    def execute(role, data):
        try:
            if d['form'] == 'function':
                out = run_function(d['fn'], d['p'], data)
            else:
                same = log[0]['obj'] if (role == 'c*x' and d.get('reuse') == 0 and log and log[0].get('obj') is not None) else None
                out = run_class(d['cls'], d['p'], data, d['NFFT'], d['fs'], reuse=d.get('reuse'), obj=same,
                                prebuilt=prebuilt.get(role))
            obj = out.pop('__obj__', (None, None))[0] if isinstance(out, dict) else None
            log.append({'role': role, 'outputs': out, 'error': None, 'obj': obj})
        except Exception as exc:
            log.append({'role': role, 'outputs': None, 'error': exc})

    execute('x', x)
    execute('c*x', cc * x)
    base, scaled = log
    if base['error'] is not None:
        # the unscaled run is itself outside the estimator's domain (degenerate data etc.)
        c.discard('base-run-raised:%s' % type(base['error']).__name__)
        return
    if scaled['error'] is not None:
        c.exception('scale', scaled['error'], feats)
        return
    if d.get('exc_only'):
        c.ok('scale:accepts-c*x-when-it-accepts-x')
        return
    if not decision_margin_ok(d, x):
        c.discard('decision-margin-within-rounding')
        return
    a = abs(cc)
    tol = 1e-6 if name in ('ma', 'arma_estimate', 'parma', 'pma') else 1e-9 if name in FOURIER else 1e-8
    if name in ('arma_estimate', 'parma'):
        ar0 = base['outputs'].get('a', base['outputs'].get('ar', (None, 0)))[0]
        if E.ill_conditioned_arma(ar0, d['p']['P']):
            c.discard('arma:numerically-singular-fit')
            return
    for key, (v0, pw) in base['outputs'].items():
        if key not in scaled['outputs']:
            c.fail('scale:%s' % key, {'why': 'output missing in the scaled run'}, feats)
            continue
        v1 = scaled['outputs'][key][0]
        v0a, v1a = np.asarray(v0), np.asarray(v1)
        factor = cc if pw == 'lin' else a ** pw
        if key == 'psd' and name in ('music', 'ev', 'pmusic', 'pev'):
            # the pseudo-spectrum has poles: compare the (bounded) noise-subspace projection 1/psd instead
            with np.errstate(divide='ignore'):
                v0a, v1a, factor = 1.0 / v0a, 1.0 / v1a, 1.0 / factor
        ref = v0a * factor
        f2 = dict(feats, output=key)
        charact = None
        if key == 'psd' and d['form'] == 'class' and name in ('pcovar', 'pmodcovar'):
            def charact(which, v0a=v0a, v1a=v1a):
                # F06: the class ignores the estimated variance, so the PSD does not move at all
                return which == 'psd-independent-of-amplitude' and v0a.shape == v1a.shape and \
                    float(np.max(np.abs(v1a - v0a))) <= 1e-9 * float(np.max(np.abs(v0a)))
        sc = float(np.max(np.abs(ref))) if ref.size else 1.0
        if pw == 0:
            sc = max(sc, 1.0)     # dimensionless outputs (coefficients, weights, decisions): absolute floor
        tol_k = E.cond_tol(name, ref, tol) if (key == 'psd' and d['form'] == 'class') else tol
        c.compare('scale:%s' % key, v1a, ref, tol_k, f2, scale=sc or 1.0,
                  detail={'c': d['c'], 'power': pw, 'N': d['N'], 'params': d['p']}, charact=charact,
                  pointwise=1e-6 if key == 'psd' else None)
