"""C16 — minimum-variance spectrum equals T / (e^H R^-1 e).

Contract on minvar judges every call against the quadratic form with R rebuilt
by the monitor from the returned reflection coefficients (own step-up, not
rlevinson); the returned Burg vectors are compared with the monitor's own
lattice.  A frame probe checks the Hermitian symmetry of the psi sequence
before the FFT.  The workload adds the pminvar class and repeat evaluation.
"""
import numpy as np

from .. import install, refs, gen, reach
from ..install import ctx as _ctx
from ..bootstrap import smod
from .c13 import burg_ref

REPO_TESTS_UNDER_CONTRACTS = True
RULE = ('cases = (data kind, real/complex, N in 8..128, m in 2..min(N/2,16), NFFT >= 2m even/odd, '
        'sampling, container); non-trivial when m >= 3; distinct = distinct descriptor')
ASSUMPTIONS = ['R = Hermitian Toeplitz of the lags implied by the returned reflection coefficients and mean|x|^2 '
               '(own step-up); numpy.linalg.inv for the quadratic form; cond(R) <= 1e10 guard',
               'the Burg vectors are compared with the monitor\'s own lattice filter']
REQUIRED_ANCHORS = ('minvar', 'arburg')


def mv_ref(k, r0, m, NFFT, fs):
    r = refs.ac_from_rc(np.asarray(k), r0)[:m]
    R = refs.herm_toeplitz(r)
    cond = np.linalg.cond(R)
    Ri = np.linalg.inv(R)
    n = np.arange(m)
    E = np.exp(2j * np.pi * np.outer(np.arange(NFFT), n) / NFFT)      # rows e(f_j)^T
    q = np.real(np.einsum('ji,ik,jk->j', np.conj(E), Ri, E))
    return fs / q, float(cond)


def post_minvar(X, order, sampling, NFFT, OLD, result):
    c = _ctx()
    x = OLD.X0
    try:
        ok = x is not None and x.ndim == 1 and x.dtype.kind in 'fci' and np.all(np.isfinite(x)) and np.any(x)
        m, nfft = int(order), int(NFFT)
        fs = float(sampling)
    except Exception:
        ok = False
    if not ok:
        return c.discard('minvar:domain')
    N = len(x)
    if not (m >= 2 and nfft >= 2 * m and N >= 8 and m - 1 <= N - 2 and fs > 0):
        return c.discard('minvar:domain')
    feats = {'fn': 'minvar', 'cplx': bool(np.iscomplexobj(x)), 'nfft_odd': bool(nfft % 2)}
    try:
        psd, A, k = result
        psd, A, k = np.asarray(psd), np.asarray(A), np.asarray(k)
    except Exception:
        return c.fail('minvar:returns-triple', {}, feats)
    kref, rhoref, _ = burg_ref(x, m - 1)
    if len(kref) < m - 1 or np.any(rhoref <= 1e-10 * rhoref[0]):
        return c.discard('minvar:degenerate-prediction-error')
    amp = float(rhoref[0] / np.min(rhoref))
    if not c.require('minvar:lengths', psd.shape == (nfft,) and A.shape == (m,) and k.shape == (m - 1,),
                     {'psd': list(psd.shape), 'A': list(A.shape), 'k': list(k.shape), 'm': m, 'NFFT': nfft}, feats):
        return
    btol = max(1e-12, 100 * 2.2e-16 * max(1, len(kref)) ** 2 * max(1.0, amp))     # see C13: <= 9 eps q^2 amp on the unchanged tree
    c.compare('minvar:returns-burg-reflection', k, kref, btol, feats, scale=1.0)
    c.compare('minvar:returns-burg-ar-with-leading-1', A, refs.stepup(kref), btol * (1 + float(np.sum(np.abs(kref)))), feats,
              scale=1 + float(np.max(np.abs(A))))
    c.require('minvar:psd-real-positive', bool(np.isrealobj(psd) and np.all(np.isfinite(psd)) and np.all(psd > 0)),
              {'min': float(np.nanmin(psd.real)), 'dtype': str(psd.dtype)}, feats)
    if np.any(np.abs(k) >= 1):
        return c.discard('minvar:|k|>=1')
    ref, cond = mv_ref(k, float(np.mean(np.abs(x.astype(complex)) ** 2)), m, nfft, fs)
    if cond > 1e10:
        return c.discard('minvar:cond(R)-guard')
    c.compare('minvar:equals-fs/(eH R^-1 e)', psd, ref, 1e-9 * max(1.0, cond ** 0.5), feats,
              scale=None, detail={'N': N, 'm': m, 'NFFT': nfft, 'fs': fs, 'cond': cond})
    # elementwise relative (the spectrum may span many decades)
    rel = np.max(np.abs(psd - ref) / np.abs(ref))
    c.err('minvar:pointwise-relative', rel)
    c.require('minvar:pointwise-relative', rel <= 1e-7 * max(1.0, cond ** 0.5),
              {'rel': float(rel), 'cond': cond, 'm': m, 'NFFT': nfft}, feats)
    try:
        same = np.array_equal(np.asarray(X), x)
    except Exception:
        same = True
    c.require('minvar:input-not-modified', same, {}, feats)


def _snap(X):
    try:
        return np.array(X, copy=True)
    except Exception:
        return None


def _probe_psi(loc):
    c = _ctx()
    if c is None:
        return
    try:
        psi, NFFT, order = loc['psi'], loc['NFFT'], loc['order']
    except KeyError:
        return c.count('probe:minvar-psi:locals-missing')
    if NFFT < 2 * order:
        return
    K = np.arange(1, order)
    sc = float(np.max(np.abs(psi))) or 1.0
    err = float(np.max(np.abs(psi[NFFT - K] - np.conj(psi[K])))) / sc if len(K) else 0.0
    im0 = abs(psi[0].imag) / sc
    c.err('probe:minvar-psi-hermitian', max(err, im0))
    if max(err, im0) <= 1e-12:
        c.ok('probe:minvar-psi-hermitian')
    else:
        c.fail('probe:minvar-psi-hermitian', {'err': err, 'imag_psi0': im0, 'order': int(order), 'NFFT': int(NFFT)},
               {'fn': 'minvar', 'probe': 'psi'})


def setup(c):
    fn = smod('minvar').minvar
    reach.watch(c, {'minvar': fn, 'arburg': smod('burg').arburg})
    reach.probe('minvar-psi', fn, 'psi = fft(psi, NFFT)', _probe_psi)
    install.contract('spectrum.minvar', 'minvar', post_minvar, snapshots=[('X0', _snap)])


KINDS = ['noise', 'tones', 'ar', 'int', 'trend', 'alt']


def cases(c):
    rng = c.rng('cases')
    out = []
    for N in (8, 9, 16, 33):
        for m in sorted(set([2, 3, N // 4, N // 2])):
            if 2 <= m <= min(N // 2, 16):
                for cplx in (0, 1):
                    for NFFT in (2 * m, 2 * m + 1, 64, 65):
                        out.append({'N': N, 'm': m, 'cplx': cplx, 'NFFT': NFFT, 'fs': 1.0, 'kind': 'noise',
                                    'cont': 'array', 'directed': NFFT in (2 * m, 2 * m + 1)})
    for i in range(1500 if c.tier == 'quick' else 216000):
        N = int(rng.integers(8, 129 if i % 3 == 0 else 48))
        m = int(rng.integers(2, min(N // 2, 16) + 1))
        NFFT = gen.pick(rng, [2 * m, 2 * m + 1, int(rng.integers(2 * m, 2 * m + 70)), 128, 255, 256])
        kind = gen.pick(rng, KINDS)
        d = {'N': N, 'm': m, 'cplx': int(rng.integers(0, 2)), 'NFFT': int(NFFT),
             'fs': gen.pick(rng, [1.0, 1.0, 2.0, 0.01, 8000.0, 1e5]), 'kind': kind,
             'cont': gen.pick(rng, ['array', 'array', 'list']), 'i': i}
        if kind == 'int':
            d['idt'] = gen.pick(rng, ['int64', 'int32', 'int16'])
            d['amp'] = gen.pick(rng, [9, 1000, 30000])
        elif i % 6 == 1:
            d['amp10'] = int(gen.pick(rng, [-12, -9, -6, 6, 9, 10]))     # "any data": amplitude is only a unit (raw ADC counts, volts)
        elif i % 6 == 3:
            # nearly predictable records: tones 60..90 dB above the noise (prediction error 1e-6..1e-9 of the power)
            d.update(kind='tones', snr_db=float(gen.pick(rng, [60, 70, 80, 90])), K=int(gen.pick(rng, [1, 2])), cont='array')
        out.append(d)
    return out


def run_case(c, d):
    import spectrum
    from .c13 import make_x
    x = make_x(c, dict(d, order=d['m'] - 1))
    m, NFFT, fs, cplx = d['m'], d['NFFT'], d['fs'], bool(d['cplx'])
    c.set_nontrivial(m >= 3)
    feats = {'fn': 'minvar', 'cplx': cplx, 'nfft_odd': bool(NFFT % 2)}
    arg = list(x) if d['cont'] == 'list' else x
    kref, rhoref, _ = burg_ref(np.asarray(x), m - 1)
    degenerate = len(kref) < m - 1 or bool(np.any(rhoref <= 1e-10 * rhoref[0]))

    def call(fn, *a, **kw):
        try:
            return fn(*a, **kw)
        except ValueError as exc:
            if degenerate:
                c.discard('minvar:degenerate-input-raised-ValueError')
                return None
            c.exception(fn.__name__, exc, feats)
        except Exception as exc:
            c.exception(getattr(fn, '__name__', 'minvar'), exc, feats)
        return None

    res = call(spectrum.minvar, arg, m, sampling=fs, NFFT=NFFT)
    if res is None:
        return
    res2 = call(spectrum.minvar, arg, m, sampling=fs, NFFT=NFFT)
    if res2 is not None:
        c.compare('minvar:repeat-evaluation', np.asarray(res2[0]), np.asarray(res[0]), 0.0, feats,
                  scale=float(np.max(np.abs(res[0]))))
    # class form: same values, folded for real data
    try:
        if d.get('i', 0) % 2 and m >= 3:
            # the object first estimated another dimension (read), then got this one assigned
            p = spectrum.pminvar(arg, m - 1, NFFT=NFFT, sampling=fs)
            _ = p.psd
            p.ar_order = m
            feats = dict(feats, dimension_reassigned=True)
        else:
            p = spectrum.pminvar(arg, m, NFFT=NFFT, sampling=fs)
        psd = np.asarray(p.psd)
        par, pref = p.ar, p.reflection
    except Exception as exc:
        if degenerate and isinstance(exc, ValueError):
            return
        c.exception('pminvar', exc, dict(feats, fn='pminvar'))
        return
    full = np.asarray(res[0])
    f2 = dict(feats, fn='pminvar')
    if cplx:
        c.compare('pminvar:equals-function', psd, full, 1e-12, f2, scale=None)
    else:
        L = refs.onesided_len(NFFT)
        if c.require('pminvar:length', psd.shape == (L,), {'len': list(psd.shape), 'NFFT': NFFT}, f2):
            kappa = float(np.median(psd / full[:L]))
            # x1 or x2: the doubling itself is C04's clause; here the values must be the function's
            c.require('pminvar:fold-factor-is-1-or-2', min(abs(kappa - 1), abs(kappa - 2)) <= 1e-9, {'kappa': kappa}, f2)
            c.compare('pminvar:equals-function-on-first-half', psd, kappa * full[:L], 1e-12, f2, scale=None)
    c.compare('pminvar.ar-equals-function', np.asarray(par), np.asarray(res[1]), 0.0, f2, scale=1.0)
    c.compare('pminvar.reflection-equals-function', np.asarray(pref), np.asarray(res[2]), 0.0, f2, scale=1.0)


def finish(c):
    install.require_evaluated(c, ['minvar.minvar'])
