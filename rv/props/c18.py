"""C18 — Slepian tapers are orthonormal, ordered and maximally concentrated
(+ sanitizer lanes on src/cpp/mydpss.c).

Behaviour: icontract postcondition on dpss() — every call (also pmtm's and
MultiTapering's) is judged against the sinc concentration kernel built by the
monitor and the eigenvectors of the commuting tridiagonal matrix
(scipy.linalg.eigh_tridiagonal).  Memory: the same (N, k, NW) triples plus
hostile ones run through ASan+UBSan builds of the C file (in-process via the
real ctypes call, and stand-alone) and valgrind
memcheck; outputs of the instrumented builds must equal the plain -O2 build.
"""
import numpy as np
import scipy.linalg

from .. import install, gen, reach, native, bootstrap
from ..install import ctx as _ctx
from ..bootstrap import smod

NEEDS_NATIVE = True
REPO_TESTS_UNDER_CONTRACTS = True
RULE = ('behaviour cases = (N, NW, k) with N in 8..64 exhaustive x NW in {1,1.5,..,8} and non-half-integers x '
        'k in {1, floor(2NW), default}, sampled N up to 1024 (quick) / 4096 (thorough); memory cases = batches of '
        '(N, k, NW) triples incl. hostile ones (k = N, k > 2NW, NW near N/2, repeated calls); non-trivial when '
        'k >= 2; distinct = distinct descriptor (a batch counts once)')
ASSUMPTIONS = ['sinc kernel and scipy.linalg.eigh_tridiagonal are the reference',
               'NW crosses the ctypes boundary as c_float (the reference uses float32(NW)); eigenvector / symmetry tolerance 1e-9 + 1e-4 (N/4096)^3, ~20x the accuracy envelope measured on the unchanged tree',
               'a clean sanitizer/valgrind run means no report on these calls, not memory safety',
               'k > 2NW and k = N are driven only in the memory lanes (the statement bounds k <= 2NW)']
REQUIRED_ANCHORS = ('dpss',)


def sinc_kernel(N, W):
    d = np.arange(N)[:, None] - np.arange(N)[None, :]
    with np.errstate(divide='ignore', invalid='ignore'):
        A = np.sin(2 * np.pi * W * d) / (np.pi * d)
    A[d == 0] = 2 * W
    return A


def tridiag_vectors(N, W, k):
    n = np.arange(N)
    diag = ((N - 1 - 2 * n) / 2.0) ** 2 * np.cos(2 * np.pi * W)
    off = n[1:] * (N - n[1:]) / 2.0
    w, v = scipy.linalg.eigh_tridiagonal(diag, off, select='i', select_range=(N - k, N - 1))
    return v[:, ::-1]


def post_dpss(N, NW, k, result):
    c = _ctx()
    try:
        N = int(N)
        NWf = float(NW)
    except Exception:
        return c.discard('dpss:domain')
    if not (N >= 8 and 1 <= NWf < N / 2.0):
        return c.discard('dpss:domain')
    kk = int(min(round(2 * NWf), N)) if k is None else int(k)
    kk = max(kk, 1)
    if kk > 2 * NWf + 1e-9 or kk < 1:
        return c.discard('dpss:k>2NW-outside-statement')
    feats = {'fn': 'dpss', 'default_k': k is None}
    try:
        tapers, lam = result
        tapers, lam = np.asarray(tapers), np.asarray(lam)
    except Exception:
        return c.fail('dpss:returns-pair', {}, feats)
    det = {'N': N, 'NW': NWf, 'k': kk}
    if not c.require('dpss:shape', tapers.shape == (N, kk) and lam.shape == (kk,),
                     dict(det, tapers=list(tapers.shape), lam=list(lam.shape)), feats):
        return
    if not c.require('dpss:finite', bool(np.all(np.isfinite(tapers)) and np.all(np.isfinite(lam))), det, feats):
        return
    G = tapers.T @ tapers
    c.compare('dpss:orthonormal-columns', G, np.eye(kk), 1e-9, feats, scale=1.0, detail=det)
    # the ratios are computed in floating point through an FFT autocovariance: accurate to ~1e-11 at N = 4096,
    # where the leading ones differ from 1 (and from each other) by less than that
    c.require('dpss:concentrations-in-(0,1]', bool(np.all(lam > 0) and np.all(lam <= 1 + 1e-9)),
              dict(det, lam=lam[:8]), feats)
    c.require('dpss:concentrations-non-increasing', bool(np.all(np.diff(lam) <= 1e-9)), dict(det, lam=lam[:8]), feats)
    W32 = float(np.float32(NWf)) / N
    if N <= (1024 if c.tier == 'quick' else 4096):
        A = sinc_kernel(N, NWf / N)
        q = np.einsum('ik,ij,jk->k', tapers, A, tapers) / np.einsum('ik,ik->k', tapers, tapers)
        c.compare('dpss:concentration-is-energy-fraction-in-band', lam, q, 1e-6, feats, scale=1.0, detail=det)
    # accuracy of the C solver measured on the unchanged tree grows like N^3 (2e-11 at N=64, 5e-6 at N=4096,
    # worst at NW=1); the bound below keeps ~20x head-room over that envelope
    tolN = 1e-9 + 1e-4 * (N / 4096.0) ** 3
    V = tridiag_vectors(N, W32, kk)
    sgn = np.sign(np.sum(V * tapers, axis=0))
    sgn[sgn == 0] = 1
    c.compare('dpss:columns-are-leading-eigenvectors(independent-solver)', tapers, V * sgn, tolN, feats,
              scale=float(np.max(np.abs(V))), detail=det)
    for i in range(kk):
        v = tapers[:, i]
        m = float(np.max(np.abs(v)))
        if i % 2 == 0:
            c.compare('dpss:even-index-symmetric', v, v[::-1], 2 * tolN, feats, scale=m, detail=dict(det, index=i))
            c.require('dpss:even-index-positive-sum', bool(np.sum(v) > 0), dict(det, index=i, sum=float(np.sum(v))), feats)
        else:
            c.compare('dpss:odd-index-antisymmetric', v, -v[::-1], 2 * tolN, feats, scale=m, detail=dict(det, index=i))
            first = v[np.argmax(np.abs(v) > 1e-4 * m)]
            c.require('dpss:odd-index-starts-with-positive-lobe', bool(first > 0), dict(det, index=i, first=float(first)), feats)
    if k is None:
        c.require('dpss:default-k-is-round(2NW)', tapers.shape[1] == max(1, int(min(round(2 * NWf), N))),
                  dict(det, got=int(tapers.shape[1])), feats)


def setup(c):
    m = smod('mtm')
    reach.watch(c, {'dpss': m.dpss})
    install.contract('spectrum.mtm', 'dpss', post_dpss)
    c.extra['sanitizer'] = {'inproc_calls': 0, 'driver_asan_calls': 0, 'valgrind_calls': 0, 'report_blocks': 0,
                            'differential_rows': 0}
    c.extra['native_source'] = bootstrap.c_source()


NWS = [1, 1.5, 2, 2.5, 3, 3.5, 4, 5, 6, 7, 8, 2.3, 3.7, 3.14159]


def hostile_triples(rng, n, nmax):
    out = [(8, 8, 3.9), (8, 1, 1.0), (9, 9, 4.4), (16, 16, 7.999), (64, 64, 4.0), (32, 9, 2.5), (33, 12, 4.0),
           (100, 3, 49.999), (17, 5, 8.49), (8, 2, 0.1), (12, 4, 0.5), (128, 20, 4.0), (64, 1, 31.99)]
    for _ in range(n):
        N = int(rng.integers(8, nmax + 1))
        NW = float(gen.pick(rng, NWS))
        if NW >= N / 2.0:
            NW = N / 2.0 - 0.01
        k = int(gen.pick(rng, [1, 2, int(2 * NW), int(2 * NW) + 1, int(2 * NW) + 3, min(N, 12)]))
        k = max(1, min(k, N))
        out.append((N, k, NW))
    return out


def cases(c):
    rng = c.rng('cases')
    out = []
    quick = c.tier == 'quick'
    # memory lanes (each batch is one case)
    nb = 1 if quick else 16
    for b in range(nb):
        r2 = c.rng('mem', b)
        tri = hostile_triples(r2, 60 if quick else 400, 512 if quick else 4096)
        if quick:
            # buffer-size boundaries of the work arrays (N*k a power of two), once per quick run
            tri += [(4096, 16, 8.0), (2048, 16, 8.0), (1024, 64, 8.0), (257, 255, 8.0)]
        if not quick and b % 4 == 0:
            tri.append((16384, 7, 4.0))
        out.append({'lane': 'asan-driver', 'batch': b, 'triples': tri, 'directed': True})
        inproc = []
        for (N, k, NW) in tri[:(40 if quick else 120)]:
            if NW < N / 2.0 and N <= 2048:
                inproc.append({'N': N, 'NW': NW, 'k': k})
        inproc += [{'N': 64, 'NW': 2.5, 'k': None}, {'N': 64, 'NW': 2.5, 'k': 5},
                   {'N': 50, 'NW': 3, 'k': 4, 'via': 'pmtm', 'NFFT': 64, 'method': 'adapt'},
                   {'N': 31, 'NW': 2, 'k': None, 'via': 'pmtm', 'NFFT': None, 'method': 'eigen'}]
        out.append({'lane': 'asan-inproc', 'batch': b, 'cases': inproc, 'directed': True})
        if not quick:
            out.append({'lane': 'valgrind', 'batch': b, 'triples': tri[:200], 'directed': True})
        else:
            # a short memcheck lane in the quick tier too: reads of never-written heap words (which ASan's red zones
            # cannot see and which change results only when the recycled word happens to be NaN/Inf) are
            # deterministic reports here; small N, k close to 2NW (all elimination branches of the inverse iteration)
            small = [(8, 5, 2.5), (16, 8, 4.0), (17, 5, 2.5), (32, 12, 6.0), (64, 16, 8.0), (9, 3, 1.5), (24, 7, 3.5),
                     (63, 5, 2.5), (31, 8, 4.0), (40, 6, 3.0)] + [t for t in tri if t[0] <= 128][:25]
            out.append({'lane': 'valgrind', 'batch': b, 'triples': small, 'directed': True})
    for N in (range(8, 41, 1) if quick else range(8, 65)):
        for NW in NWS:
            if NW >= N / 2.0:
                continue
            ks = sorted(set([1, int(2 * NW)])) + [None]
            if quick and N > 16:
                ks = [gen.pick(rng, ks)]
            for k in ks:
                out.append({'lane': 'behaviour', 'N': N, 'NW': NW, 'k': k, 'directed': N in (8, 9)})
    for i in range(40 if quick else 6000):
        N = int(rng.integers(41, (1025 if quick else 4097) if i % 5 == 0 else 300))
        NW = float(gen.pick(rng, NWS))
        out.append({'lane': 'behaviour', 'N': N, 'NW': NW, 'k': gen.pick(rng, [1, int(rng.integers(1, int(2 * NW) + 1)), None]), 'i': i})
    return out


def _rel(a, b):
    return abs(a - b) / max(abs(b), 1e-300)


def run_case(c, d):
    lane = d['lane']
    if lane == 'behaviour':
        import spectrum
        k = d['k']
        c.set_nontrivial((k or 2) >= 2)
        try:
            first = spectrum.dpss(d['N'], d['NW'], k)
        except Exception as exc:
            c.exception('dpss', exc, {'fn': 'dpss'})
            return
        if d.get('i', 0) % 5 == 0 or d['N'] <= 12:
            # the caller scales the tapers it got (in place) and asks again: the second answer is judged by the
            # contract like any other, so it must not be the array the caller has just modified
            try:
                t1, e1 = first
                np.multiply(t1, 3.0, out=t1)
                np.multiply(e1, 0.5, out=e1)
                spectrum.dpss(d['N'], d['NW'], k)
            except Exception as exc:
                c.exception('dpss', exc, {'fn': 'dpss', 'call': 'repeated'})
        return
    san = c.extra['sanitizer']
    c.set_nontrivial(True)
    if lane in ('asan-driver', 'valgrind'):
        kind = 'asan' if lane == 'asan-driver' else 'valgrind'
        tri = [tuple(t) for t in d['triples']]
        base = native.run_driver('plain', tri)
        if base['returncode'] != 0 or len(base['rows']) != len(tri):
            c.fail('native:plain-driver-completes', {'returncode': base['returncode'], 'rows': len(base['rows']),
                                                     'expected': len(tri), 'stderr': base['report'][-400:],
                                                     'first_unfinished_triple': tri[len(base['rows'])] if len(base['rows']) < len(tri) else None},
                   {'lane': 'plain-driver'})
        r = native.run_driver(kind, tri)
        if r.get('timeout'):
            c.flag_inconclusive('%s lane timed out' % lane)
            return
        san['driver_asan_calls' if kind == 'asan' else 'valgrind_calls'] += len(r['rows'])
        nrep = native.count_reports(r['report'])
        san['report_blocks'] += nrep
        clean = r['returncode'] == 0 and nrep == 0 and len(r['rows']) == len(tri)
        fail_at = tri[len(r['rows'])] if len(r['rows']) < len(tri) else None
        c.require('%s:no-sanitizer-report' % lane, clean,
                  {'returncode': r['returncode'], 'reports': nrep, 'first_unfinished_triple': fail_at,
                   'report': r['report'][:1800]}, {'lane': lane})
        worst = 0.0
        for ra, rb in zip(r['rows'], base['rows']):
            for a, b in zip(ra, rb):
                worst = max(worst, _rel(a, b))
            san['differential_rows'] += 1
        c.err('%s:differential' % lane, worst)
        if r['rows']:
            c.require('%s:instrumented-build-equals-plain-build' % lane, worst <= 1e-9, {'max_rel_diff': worst},
                      {'lane': lane})
        return
    if lane == 'asan-inproc':
        r = native.run_inproc(d['cases'])
        if r.get('timeout'):
            c.flag_inconclusive('in-process sanitizer lane timed out')
            return
        san['inproc_calls'] += len(r['results'])
        nrep = native.count_reports(r['report'])
        san['report_blocks'] += nrep
        clean = r['returncode'] == 0 and nrep == 0 and r['done'] and len(r['results']) == len(d['cases'])
        fail_at = d['cases'][len(r['results'])] if len(r['results']) < len(d['cases']) else None
        c.require('asan-inproc:no-sanitizer-report', clean,
                  {'returncode': r['returncode'], 'reports': nrep, 'first_unfinished_case': fail_at,
                   'report': r['report'][:1800]}, {'lane': lane})
        # differential against the plain build in this (uninstrumented) process
        import spectrum.mtm as mtm
        worst = 0.0
        for cs, res in zip(d['cases'], r['results']):
            if not res.get('ok'):
                continue
            try:
                if cs.get('via') == 'pmtm':
                    N = cs['N']
                    x = np.cos(0.3 * np.arange(N)) + 0.01 * np.arange(N)
                    sk, w, e = mtm.pmtm(x, NW=cs['NW'], k=cs['k'], NFFT=cs.get('NFFT'), method=cs.get('method', 'eigen'))
                    mine = [float(np.sum(np.abs(sk))), float(np.sum(e)), float(np.sum(w))]
                else:
                    t, e = install.original('spectrum.mtm', 'dpss')(cs['N'], cs['NW'], cs['k'])
                    wts = np.outer(np.arange(1, cs['N'] + 1), np.arange(1, t.shape[1] + 1))
                    mine = [float(np.sum(t * wts)), float(np.sum(e)), float(np.sum(np.abs(t)))]
            except AssertionError:
                continue
            scale = max(abs(mine[2]), 1e-300)
            worst = max(worst, abs(res['c1'] - mine[0]) / max(scale * cs['N'], 1e-300),
                        _rel(res['c2'], mine[1]), _rel(res['c3'], mine[2]))
            san['differential_rows'] += 1
        c.err('asan-inproc:differential', worst)
        if r['results']:
            c.require('asan-inproc:instrumented-build-equals-plain-build', worst <= 1e-9, {'max_rel_diff': worst},
                      {'lane': lane})


def finish(c):
    install.require_evaluated(c, ['mtm.dpss'])
    san = c.extra.get('sanitizer', {})
    if san.get('inproc_calls', 0) == 0:
        c.flag_inconclusive('in-process sanitizer lane observed no call')
    if san.get('driver_asan_calls', 0) == 0:
        c.flag_inconclusive('stand-alone sanitizer lane observed no call')
    if san.get('valgrind_calls', 0) == 0:
        c.flag_inconclusive('valgrind lane observed no call')
