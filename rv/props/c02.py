"""C02 — every estimator puts spectral values on the frequency axis it reports.

Paired-execution trace monitor: for every estimator object the workload builds
(12 classes x real/complex x N parity x NFFT kinds x sampling x tone bins) the
observer records psd, frequencies(), NFFT, sides at the API boundary and the
offline checker applies index arithmetic on (k, NFFT, fs).  The eigen()
contract of C17 is installed in its exact (no shift allowed) form, because C02
demands exact placement for MUSIC/EV.
"""
import numpy as np

from .. import install, refs, gen, reach, estimators as E
from ..bootstrap import smod
from . import c17

NEEDS_NATIVE = True
RULE = ('cases = (class, real/complex, N even/odd in 16..64, NFFT kind in {None, nextpow2, even>=N, odd>=N, '
        'prime}, sampling in {1, 2, 1e3, 0.05}, tone bin k (all bins for small NFFT, incl. DC+-1 and Nyquist-1, '
        'negative frequencies), model orders drawn in the documented domain); every case is non-trivial '
        '(a tone is always present); distinct = distinct descriptor')
ASSUMPTIONS = ['tones at 60 dB SNR so that the maximum is unique (180 dB for half of the covariance / modified-covariance '
               'cases); exactly noiseless records (a pole on the grid, infinite model spectrum) are not driven',
               'peak tolerances per estimator exactly as stated in the property (0 / 1 bin / taper bandwidth); '
               'real-sinusoid half-widths as calibrated in DESIGN section 6 C02',
               'NFFT is the requested value (an object that silently changes it has moved the grid)',
               'the tone clause is asked of the ARMA class only for P = Q <= 4 and lag <= N/2: elsewhere the library '
               'truncates / zero-pads its modified Yule-Walker sequence (finding F24) or the fit of a 60 dB tone is '
               'over-parameterised; the axis clauses are judged everywhere']
REQUIRED_ANCHORS = ('Range.onesided_gen', 'Spectrum.frequencies')


def setup(c):
    psd = smod('psd')
    reach.watch(c, {'Range.onesided_gen': psd.Range.onesided_gen, 'Range.twosided_gen': psd.Range.twosided_gen,
                    'Spectrum.frequencies': psd.Spectrum.frequencies, 'eigen': smod('eigenfre').eigen,
                    'arma2psd': smod('arma').arma2psd})
    c17.SHIFTS = (0,)
    install.contract('spectrum.eigenfre', 'eigen', c17.post_eigen)


def reference_model_peak(cls, params, x, p, NFFT, L):
    """Bin (0..L-1) at which an independently fitted model of the same kind has its maximum, or None.  Used only
    when an over-parameterised model-based estimate peaks away from the tone: the free poles of such a fit on a
    60 dB tone occasionally dominate (measured: ~1 fit in 300 for ARMA(4,4), ~1 in 1e5 for covariance order 8), which
    is the estimator, not the axis, exactly when the monitor's own fit peaks at the same reported frequency."""
    try:
        if cls in ('pcovar', 'pmodcovar'):
            from .c14 import ls_fit
            a = ls_fit(x, params['order'], 'covariance' if cls == 'pcovar' else 'modified')[1]
            b = []
        elif cls == 'pyule':
            a = refs.levinson_ref(refs.biased_ac(x, params['order']), params['order'])[0]
            b = []
        elif cls == 'pburg':
            from .c13 import burg_ref
            a = refs.stepup(burg_ref(x, params['order'])[0])[1:]
            b = []
        elif cls == 'parma':
            a, b = np.asarray(p.ar), np.asarray(p.ma)          # no independent ARMA fit: the model the object reports
        else:
            return None
        A = refs.poly_on_grid(np.concatenate([[1.0], np.asarray(a)]), NFFT)
        B = refs.poly_on_grid(np.concatenate([[1.0], np.asarray(b)]), NFFT) if len(b) else 1.0
        model = (np.abs(B) ** 2 / np.abs(A) ** 2)[:L]
        return int(np.argmax(model))
    except Exception:
        return None


def over_parameterised(cls, params, cplx):
    need = 1 if cplx else 2
    order = params.get('order', params.get('P'))
    return cls in ('pcovar', 'pmodcovar', 'pyule', 'pburg', 'parma') and order is not None and order > need


def resolve_nfft(kind, N):
    if kind is None:
        return N
    if kind == 'nextpow2':
        return 1 << int(np.ceil(np.log2(N)))
    return int(kind)


def cases(c):
    rng = c.rng('cases')
    out = []
    n = 260 if c.tier == 'quick' else 36000
    for cls in E.CLASSES:
        for i in range(n):
            cplx = int(i % 2 == 0)
            N = int(gen.pick(rng, [16, 17, 24, 31, 32, 33, 48, 63, 64]))
            if i % 40 == 39 and cls in ('Periodogram', 'pburg', 'pyule', 'pcorrelogram'):
                N = int(gen.pick(rng, [513, 600, 777, 1025]))          # long records, long grids
            kind = gen.pick(rng, [None, 'nextpow2', N + 2 * int(rng.integers(0, 9)) + (N % 2),
                                  N + 2 * int(rng.integers(0, 9)) + 1 - (N % 2), gen.next_prime(N + 1)])
            NFFT = resolve_nfft(kind, N)
            params = E.draw(rng, cls, N)
            # "default PSD": constructor defaults apart from the mandatory order / lag arguments
            if cls == 'Periodogram':
                params['window'] = 'hann'
            if cls == 'pcorrelogram':
                params['window'] = 'hamming'
            if cls == 'pcorrelogram':
                params['lag'] = int(min(params['lag'], (NFFT - 1) // 2, N - 1))
                if params['lag'] < 2:
                    continue
            # a tone needs a model that can hold it: one complex pole per complex exponential,
            # a conjugate pair (order >= 2, signal subspace of dimension 2) per real sinusoid
            need = 1 if cplx else 2
            if 'order' in params:
                params['order'] = max(params['order'], need + (1 if cls == 'pminvar' else 0))
            if cls == 'parma':
                params['P'] = max(params['P'], need)
                params['lag'] = max(params['lag'], 2 * params['P'], params['Q'])
                if not (params['lag'] < N and params['lag'] + 2 * params['P'] - params['Q'] <= N
                        and 2 * params['Q'] < N - params['P']):
                    continue
            if cls in ('pmusic', 'pev'):
                params['NSIG'] = need
                params['P'] = max(params['P'], need + 1)
            if NFFT < E.min_nfft(cls, params, N):
                continue
            if cplx:
                k = int(gen.pick(rng, [0, 1, -1, NFFT // 2, NFFT // 2 - 1, int(rng.integers(-(NFFT // 2) + 1, NFFT // 2 + 1))]))
            else:
                hw = E.halfwidth_real(cls, params, N, NFFT) or 2
                lo, hi = hw + 2, NFFT // 2 - hw - 2
                if N > 200:
                    # long records have fine grids: "away from 0 and sampling/2" is a matter of frequency, not of bins
                    # (a low-order AR fit of a sinusoid a few fine bins from fs/2 is pulled onto fs/2)
                    lo, hi = max(lo, NFFT // 8), min(hi, (3 * NFFT) // 8)
                if hi < lo:
                    continue
                k = int(rng.integers(lo, hi + 1))
            out.append({'cls': cls, 'cplx': cplx, 'N': N, 'NFFT': kind, 'fs': gen.pick(rng, [1.0, 2.0, 1000.0, 0.05]),
                        'k': k, 'params': params, 'amp10': int(gen.pick(rng, [0, 0, 0, -3, -7, 4])), 'i': i, 'directed': i < 4,
                        'reuse': ((i // 6) % 4) if i % 3 == 1 else None})       # i // 6: every salt meets both parities of i (real and complex)
            if cls in ('pcovar', 'pmodcovar') and (i // 2) % 2 == 0:
                # the least-squares estimators are exact on a noiseless tone: nearly noiseless records (noise 1e-9)
                # separate them from a recursion that breaks down when the prediction error vanishes
                out[-1]['noise10'] = -9
    return out


def run_case(c, d):
    cls, cplx, N, kind, fs, k, params = d['cls'], bool(d['cplx']), d['N'], d['NFFT'], d['fs'], d['k'], d['params']
    NFFT = resolve_nfft(kind, N)
    rng = c.rng(d, 'x')
    n = np.arange(N)
    ph = rng.uniform(0, 2 * np.pi)
    sigma = 10.0 ** d.get('noise10', -3)
    if cplx:
        x = np.exp(1j * (2 * np.pi * k * n / NFFT + ph)) + sigma * gen.noise(rng, N, True)
    else:
        x = np.cos(2 * np.pi * k * n / NFFT + ph) + sigma * gen.noise(rng, N, False)
    x = x * 10.0 ** d.get('amp10', 0)             # the axis clauses do not depend on the amplitude of the record
    if d.get('i', 0) % 7 in (5, 6):
        x = gen.variant(x, gen.LAYOUTS[d['i'] % 7 - 5])       # handed over as a non-contiguous view / read-only array
    feats = {'cls': cls, 'cplx': cplx, 'nfft_odd': bool(NFFT % 2), 'nfft_kind': 'None' if kind is None else
             ('nextpow2' if kind == 'nextpow2' else 'int')}
    try:
        if d.get('reuse') is not None:
            p = E.build_reused(cls, params, x, NFFT=kind, fs=fs, scale=False, salt=d['reuse'])
            feats = dict(feats, reused_object=True)
        else:
            p = E.build(cls, params, x, NFFT=kind, fs=fs, scale=False)
        psd = np.asarray(p.psd)
        fr = np.asarray(p.frequencies(), dtype=float)
        got_nfft = p.NFFT
    except Exception as exc:
        c.exception(cls, exc, feats)
        return
    det = {'N': N, 'NFFT': NFFT, 'fs': fs, 'k': k, 'params': params}
    c.require('psd-is-real', bool(np.isrealobj(psd)), dict(det, dtype=str(psd.dtype)), feats)
    c.require('psd-is-finite', bool(np.all(np.isfinite(psd.real))), det, feats)
    c.require('object-keeps-the-requested-NFFT', got_nfft == NFFT, dict(det, got=got_nfft), feats)
    L = NFFT if cplx else refs.onesided_len(NFFT)
    c.require('psd-has-one-value-per-reported-frequency', len(psd) == len(fr), dict(det, psd=len(psd), freqs=len(fr)), feats)
    ok_len = c.require('psd-length-for-requested-NFFT', len(psd) == L, dict(det, got=len(psd), want=L), feats)
    c.compare('frequencies-are-k*fs/NFFT', fr, np.arange(len(fr)) * fs / NFFT, 1e-12, feats, scale=fs, detail=det)
    if cls == 'pma' or not ok_len or len(psd) != len(fr) or not np.all(np.isfinite(psd.real)):
        return
    if cls == 'parma' and (params['lag'] > N // 2 or params['P'] != params['Q'] or params['P'] > 4):
        # the tone clause is asked of ARMA fits that are well posed on a 60 dB tone: as many MA as AR terms (the
        # library builds its modified Yule-Walker system correctly only then, finding F24), few of them, and
        # unbiased lags that rest on at least N/2 products; elsewhere where an over-parameterised fit of nearly
        # noiseless data puts its spurious poles is not an axis matter (the axis clauses above were still judged)
        c.discard('tone-clause:arma-not-well-posed-for-a-noiseless-tone')
        return
    idx = int(np.argmax(psd.real))
    bin_at = int(np.rint(fr[idx] * NFFT / fs))
    if cplx:
        dist = abs((bin_at - k + NFFT // 2) % NFFT - NFFT // 2)
        tol = E.tol_complex_tone(cls, params, N, NFFT)
        if dist > tol and over_parameterised(cls, params, cplx) and \
                reference_model_peak(cls, params, x, p, NFFT, len(psd)) == idx:
            c.discard('tone-clause:over-parameterised-fit-peaks-at-a-spurious-pole(reference-fit-agrees)')
            return
        c.err('peak-distance:%s' % cls, dist)
        c.require('complex-tone:maximum-at-the-entry-of-bin-k', dist <= tol,
                  dict(det, peak_bin=bin_at, distance=dist, allowed=tol), feats)
    else:
        hw = E.halfwidth_real(cls, params, N, NFFT)
        dist = abs(bin_at - abs(k))
        if dist > hw and over_parameterised(cls, params, cplx) and \
                reference_model_peak(cls, params, x, p, NFFT, len(psd)) == idx:
            c.discard('tone-clause:over-parameterised-fit-peaks-at-a-spurious-pole(reference-fit-agrees)')
            return
        c.err('peak-distance-real:%s' % cls, dist)
        c.require('real-sinusoid:maximum-within-main-lobe-half-width', dist <= hw,
                  dict(det, peak_bin=bin_at, distance=dist, allowed=hw), feats)
