"""C13 — Burg models are stable, nested and minimise forward+backward error.

Contract on arburg (judges every call, including minvar's and pburg's) against
the monitor's own lattice filter; a sys.monitoring frame probe compares the
recursively updated denominator with the direct sum at every stage; the
workload adds nesting across orders, the six criteria, repeat evaluation on
the same array and the pburg class.
"""
import numpy as np

from .. import install, refs, gen, reach
from ..install import ctx as _ctx

REPO_TESTS_UNDER_CONTRACTS = True
RULE = ('cases = (data kind incl. integer dtypes, real/complex, N in 4..200, order in 1..min(N-2,30), '
        'criterion in {None, AIC, AICc, KIC, FPE, AKICc, MDL}, container); non-trivial when order >= 2; '
        'distinct = distinct descriptor')
ASSUMPTIONS = ['own lattice filter (numpy) is the reference for the stage-optimal reflection coefficients',
               'degenerate prediction error (rho/r0 < 1e-10 at some stage) is discarded: the statement excludes it',
               'the ValueError raised by arburg when rho <= 0 is accepted for noise-free inputs']
REQUIRED_ANCHORS = ('arburg',)
CRITERIA = ['AIC', 'AICc', 'KIC', 'FPE', 'AKICc', 'MDL']


def burg_ref(x, order):
    """Own Burg lattice: returns (k, rho_by_stage, stage data for optimality checks)."""
    x = np.asarray(x).astype(complex)
    N = len(x)
    f = x.copy()
    b = x.copy()
    r0 = float(np.mean(np.abs(x) ** 2))
    rho = [r0]
    ks = []
    dens = []
    for m in range(order):
        fp = f[m + 1:]
        bp = b[m:-1]
        num = -2.0 * np.dot(fp, np.conj(bp))
        den = float(np.sum(np.abs(fp) ** 2) + np.sum(np.abs(bp) ** 2))
        if den <= 0:
            break
        k = num / den
        ks.append(k)
        dens.append(den)
        fn = f.copy()
        bn = b.copy()
        fn[m + 1:] = fp + k * bp
        bn[m + 1:] = bp + np.conj(k) * fp
        f, b = fn, bn
        rho.append(rho[-1] * (1 - abs(k) ** 2))
    return np.array(ks), np.array(rho), dens


def stage_energy(x, ks, kq):
    """Summed forward+backward energy of stage len(ks)+1 when its coefficient is kq."""
    x = np.asarray(x).astype(complex)
    f = x.copy()
    b = x.copy()
    m = 0
    for k in ks:
        fp, bp = f[m + 1:].copy(), b[m:-1].copy()
        f[m + 1:] = fp + k * bp
        b[m + 1:] = bp + np.conj(k) * fp
        m += 1
    fp, bp = f[m + 1:], b[m:-1]
    return float(np.sum(np.abs(fp + kq * bp) ** 2) + np.sum(np.abs(bp + np.conj(kq) * fp) ** 2))


def _data_ok(X):
    try:
        x = np.asarray(X)
        return x.ndim == 1 and len(x) >= 4 and x.dtype.kind in 'fci' and np.all(np.isfinite(x)) and np.any(x)
    except Exception:
        return False


def judge_burg(c, tag, x, order, criteria, a, rho, ref, feats):
    N = len(x)
    a, ref = np.asarray(a), np.asarray(ref)
    q = len(ref)
    if not c.require('%s:lengths' % tag, a.shape == (q,) and q <= order and (criteria is not None or q == order),
                     {'len_a': list(a.shape), 'len_k': q, 'order': order, 'criteria': criteria}, feats):
        return
    kref, rhoref, dens = burg_ref(x, order)
    r0 = rhoref[0]
    nst = len(kref)
    if nst < q or np.any(rhoref[:q + 1] <= 1e-10 * r0):
        return c.discard('%s:degenerate-prediction-error' % tag)
    c.require('%s:reflection-modulus<=1' % tag, bool(np.all(np.abs(ref) <= 1 + 1e-12)), {'k': ref[:6]}, feats)
    # conditioning of stage i: errors in earlier stages are amplified by 1/rho_i
    amp = float(r0 / np.min(rhoref[:q + 1]))
    # rounding of the error-energy recursion grows with the amplification r0/rho and with the square of the order
    # (measured on the unchanged tree over 11000 records up to 110 dB SNR: <= 9 eps q^2 amp); allowance 100 eps q^2 amp
    tol = max(1e-12, 100 * 2.2e-16 * max(1, q) ** 2 * max(1.0, amp))
    if q:
        c.compare('%s:stage-optimal-reflection' % tag, ref, kref[:q], tol, feats, scale=1.0,
                  detail={'N': N, 'order': order, 'q': q, 'amp': amp})
        up = refs.stepup(ref)[1:]
        c.compare('%s:ar-is-stepup-of-reflection' % tag, a, up, 1e-11, feats,
                  scale=1 + float(np.max(np.abs(up))))
        # k_q minimises the stage energy (compare with nearby coefficients)
        e0 = stage_energy(x, ref[:q - 1], ref[q - 1])
        for dlt in (1e-3, -1e-3, 1e-3j, -1e-3j):
            if np.isrealobj(x) and isinstance(dlt, complex):
                continue
            e1 = stage_energy(x, ref[:q - 1], ref[q - 1] + dlt)
            if not e0 <= e1 * (1 + 1e-9):
                c.fail('%s:stage-energy-not-minimal' % tag, {'e_at_k': e0, 'e_nearby': e1, 'delta': dlt}, feats)
                break
        else:
            c.ok('%s:stage-energy-minimal' % tag)
        rt = refs.max_root_modulus(np.concatenate([[1.0], a])) if q <= 40 else 0.0
        c.require('%s:stable' % tag, rt <= 1 + 1e-8, {'max_root_modulus': rt}, feats)
    prod = r0 * float(np.prod(1 - np.abs(ref) ** 2))
    c.compare('%s:variance-product-formula' % tag, rho, prod, 1e-10, feats, scale=r0,
              detail={'q': q, 'order': order, 'criteria': criteria})
    c.require('%s:variance-not-increasing' % tag, bool(np.real(rho) <= r0 * (1 + 1e-12)), {'rho': rho, 'r0': r0}, feats)
    if np.isrealobj(x):
        c.require('%s:real-data-real-coefficients' % tag, bool(np.max(np.abs(np.imag(a))) <= 1e-12 * (1 + np.max(np.abs(a))))
                  if q else True, {'a': a[:4]}, feats)


def post_arburg(X, order, criteria, OLD, result):
    c = _ctx()
    x0 = OLD.X0
    if x0 is None or not _data_ok(x0):
        return c.discard('arburg:data-domain')
    try:
        order = int(order)
    except Exception:
        return c.discard('arburg:order-domain')
    N = len(x0)
    if not (1 <= order <= N - 2):
        return c.discard('arburg:order-domain')
    feats = {'fn': 'arburg', 'cplx': bool(np.iscomplexobj(x0)), 'criteria': criteria}
    try:
        a, rho, ref = result
    except Exception:
        return c.fail('arburg:returns-triple', {'type': str(type(result))}, feats)
    judge_burg(c, 'arburg', x0, order, criteria, a, rho, ref, feats)
    # the caller's samples are still the caller's samples
    try:
        same = np.array_equal(np.asarray(X), x0)
    except Exception:
        same = True
    c.require('arburg:input-not-modified', same, {'N': N}, feats)


def _snap(X):
    try:
        return np.array(X, copy=True)
    except Exception:
        return None


def _probe_den(loc):
    c = _ctx()
    if c is None:
        return
    try:
        k, N, ef, eb, den = loc['k'], loc['N'], loc['ef'], loc['eb'], loc['den']
        direct = float(np.sum(np.abs(ef[k + 1:N]) ** 2) + np.sum(np.abs(eb[k:N - 1]) ** 2))
    except Exception:
        return c.count('probe:arburg-den:locals-missing')
    if direct <= 0:
        return
    r0 = loc.get('x')
    sc = float(np.sum(np.abs(np.asarray(r0).astype(complex)) ** 2)) * 2 if r0 is not None else direct
    rel = abs(den - direct) / max(sc, 1e-300)
    c.err('probe:arburg-den', rel)
    if direct / max(sc, 1e-300) < 1e-8:
        return c.discard('probe:arburg-den:degenerate')
    if rel <= 1e-9:
        c.ok('probe:arburg-den-equals-direct-sum')
    else:
        c.fail('probe:arburg-den-equals-direct-sum', {'den': den, 'direct': direct, 'stage': int(k), 'N': int(N)},
               {'fn': 'arburg', 'probe': 'den'})


def setup(c):
    import spectrum
    fn = spectrum.burg.arburg
    reach.watch(c, {'arburg': fn})
    reach.probe('arburg-den', fn, 'kp = -2. * num / den', _probe_den)
    install.contract('spectrum.burg', 'arburg', post_arburg, snapshots=[('X0', _snap)])
    reach.cover(c, {'arburg': fn})


KINDS = ['noise', 'tones', 'int', 'ar', 'trend', 'dyn', 'alt']


def cases(c):
    rng = c.rng('cases')
    out = []
    for N in (4, 5, 6, 9, 16, 33):
        for order in sorted(set([1, 2, N // 2, N - 3, N - 2])):
            if 1 <= order <= min(N - 2, 30):
                for cplx in (0, 1):
                    for crit in [None] + CRITERIA:
                        out.append({'N': N, 'order': order, 'cplx': cplx, 'kind': 'noise', 'crit': crit,
                                    'cont': 'array', 'directed': crit is None})
    # witness of finding F18 (repaired): AICc / AKICc divide by N-k-2 = 0 at order N-2
    for crit in ('AICc', 'AKICc'):
        out.append({'N': 4, 'order': 2, 'cplx': 0, 'kind': 'literal', 'values': [1, -0.9, 0.8, -0.7], 'crit': crit,
                    'cont': 'array', 'directed': True})
    for i in range(1000 if c.tier == 'quick' else 216000):
        N = int(rng.integers(4, 201 if i % 3 == 0 else 48))
        kind = gen.pick(rng, KINDS)
        d = {'N': N, 'order': int(rng.integers(1, min(N - 2, 30) + 1)), 'cplx': int(rng.integers(0, 2)),
             'kind': kind, 'crit': gen.pick(rng, [None, None] + CRITERIA),
             'cont': gen.pick(rng, ['array', 'array', 'list']), 'i': i}
        if kind != 'int':
            d['amp10'] = int(gen.pick(rng, [0, 0, 0, -3, -6, -8, 3, 6]))
        if kind == 'int':
            d['idt'] = gen.pick(rng, ['int64', 'int32', 'int16'])
            d['amp'] = gen.pick(rng, [9, 1000, 30000])
        out.append(d)
    return out


def make_x(c, d):
    if d['kind'] == 'literal':
        return np.array(d['values'], dtype=float)
    dd = {'kind': d['kind'], 'N': d['N'], 'cplx': bool(d['cplx']), 'amp': d.get('amp', 9)}
    if 'snr_db' in d:
        dd.update(snr_db=d['snr_db'], K=d.get('K', 2))
    x = gen.data(dd, c.rng(d, 'x'))
    if d['kind'] == 'int' and not d['cplx'] and d.get('idt'):
        x = x.astype(d['idt'])
    if d.get('amp10'):
        x = x * 10.0 ** d['amp10']
    if d.get('i', 0) % 7 in (5, 6) and d.get('cont', 'array') == 'array':
        x = gen.variant(x, gen.LAYOUTS[d['i'] % 7 - 5])       # handed over as a non-contiguous view / read-only array
    return x


def run_case(c, d):
    import spectrum
    x = make_x(c, d)
    pristine = np.array(x, copy=True)
    order, crit = d['order'], d['crit']
    c.set_nontrivial(order >= 2)
    feats = {'fn': 'arburg', 'cplx': bool(d['cplx']), 'criteria': crit}
    arg = list(x) if d['cont'] == 'list' else x
    kref, rhoref, _ = burg_ref(pristine, order)
    degenerate = len(kref) < order or bool(np.any(rhoref <= 1e-10 * rhoref[0]))

    def call(*a):
        try:
            return spectrum.arburg(*a)
        except ValueError as exc:
            if degenerate:
                c.discard('arburg:degenerate-input-raised-ValueError')
                return None
            c.exception('arburg', exc, feats)
        except Exception as exc:
            f2 = dict(feats)
            if isinstance(exc, ZeroDivisionError) and crit in ('AICc', 'AKICc'):
                f2['order_reaches_N_minus_2'] = bool(order >= d['N'] - 2)
            c.exception('arburg', exc, f2)
        return None

    res = call(arg, order, crit)
    if res is None:
        return
    a, rho, ref = res
    # nesting: the order-q model is a prefix of the order-p one (no criterion)
    if crit is None:
        for q in sorted(set([1, order // 2, order - 1])):
            if 1 <= q < order:
                r2 = call(arg, q, None)
                if r2 is None:
                    return
                c.compare('arburg:nested-reflection', np.asarray(r2[2]), np.asarray(ref)[:q], 1e-12, feats, scale=1.0,
                          detail={'p': order, 'q': q})
                c.require('arburg:variance-decreases-with-order', bool(rho <= r2[1] * (1 + 1e-12)),
                          {'rho_p': rho, 'rho_q': r2[1]}, feats)
    else:
        # exactly the Burg model of the selected order
        q = len(ref)
        if q >= 1:
            r2 = call(arg, q, None)
            if r2 is not None:
                c.compare('criteria:equals-plain-burg-of-order-q:a', np.asarray(a), np.asarray(r2[0]), 1e-12, feats,
                          scale=1 + float(np.max(np.abs(r2[0]))), detail={'q': q, 'p': order})
                c.compare('criteria:equals-plain-burg-of-order-q:rho', rho, r2[1], 1e-12, feats,
                          scale=float(rhoref[0]), detail={'q': q, 'p': order})
        else:
            c.compare('criteria:order-0-variance-is-mean-power', rho, float(rhoref[0]), 1e-12, feats,
                      scale=float(rhoref[0]))
    # repeat evaluation on the very same container gives the same model
    r3 = call(arg, order, crit)
    if r3 is not None:
        c.compare('arburg:repeat-evaluation', np.asarray(r3[2]), np.asarray(ref), 0.0, feats, scale=1.0)
    # class form
    try:
        p = spectrum.pburg(arg, order, criteria=crit, NFFT=max(32, 2 * d['N']))
        p()
        par, prho, pref = p.ar, p.rho, p.reflection
    except Exception as exc:
        if degenerate and isinstance(exc, ValueError):
            return
        f2 = dict(feats, fn='pburg')
        if isinstance(exc, ZeroDivisionError) and crit in ('AICc', 'AKICc'):
            f2['order_reaches_N_minus_2'] = bool(order >= d['N'] - 2)
        c.exception('pburg', exc, f2)
        return
    c.compare('pburg.ar-equals-function', np.asarray(par), np.asarray(a), 1e-12, dict(feats, fn='pburg'),
              scale=1 + (float(np.max(np.abs(a))) if len(a) else 0.0))
    c.compare('pburg.rho-equals-function', prho, rho, 1e-12, dict(feats, fn='pburg'), scale=float(rhoref[0]))
    c.compare('pburg.reflection-equals-function', np.asarray(pref), np.asarray(ref), 1e-12, dict(feats, fn='pburg'),
              scale=1.0)


def finish(c):
    install.require_evaluated(c, ['burg.arburg'])
