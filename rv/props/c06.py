"""C06 — side conversions are lossless, length-consistent and axis-aligned.

History monitor: conversion paths over {onesided, twosided, centerdc} are
applied to live Spectrum objects holding a known PSD; after every step the
observer reads psd / sides / frequencies() and compares with a pure-numpy model
of the three layouts on the DFT grid.  Clauses are judged separately:
  (a) one value per reported frequency, (b) value carried to the entry of its
  frequency and (c) total power preserved [per step, against the model],
  (d) path independence [final vector vs direct conversion], (e) returning to
  the original sides restores the original values [round trip].
The tools helpers and arma2psd(sides='centerdc') are judged by the same model.

Open finding F08: the library converts through a private layout (Nyquist value
stored last, NFFT-1 values for odd NFFT, DC halved by the direct one-sided ->
centre-DC branch).  A step that fails the model is absorbed ONLY if it equals,
bit for bit, a frozen restatement of today's six branches / four helpers kept
below; anything else is reported as a new violation.
"""
import itertools

import numpy as np

from .. import gen, reach, refs
from ..bootstrap import smod

RULE = ('cases = (datatype, NFFT in {2,3,4,5,8,9,16,17,...}, PSD vector = basis vector j | random positive vector, '
        'path over {onesided, twosided, centerdc} of length <= 4 (complex data: two symbols)); exhaustive for the '
        'listed NFFT, sampled beyond; helper cases = (helper, length, vector); non-trivial when the path contains at '
        'least one real conversion (target != current sides); distinct = distinct descriptor')
ASSUMPTIONS = ['the start state is set through the public psd setter in the default layout with NFFT fixed by the constructor',
               'onesided is not requested for complex data',
               'model: twosided[k] <-> k/NFFT, centerdc[i] <-> (i - NFFT//2)/NFFT, one-sided interior = sum of +f and -f, '
               'Nyquist only for even NFFT']
REQUIRED_ANCHORS = ('Spectrum.get_converted_psd', 'Spectrum._setSides')
SIDES = ['onesided', 'twosided', 'centerdc']


# ----------------------------------------------------------------- the model (true property)
def to_two(v, sides, NFFT):
    v = np.asarray(v, dtype=float)
    if sides == 'twosided':
        return v.copy()
    if sides == 'centerdc':
        return np.fft.ifftshift(v)
    t = np.zeros(NFFT)
    t[0] = v[0]
    for k in range(1, len(v)):
        if NFFT % 2 == 0 and k == NFFT // 2:
            t[k] = v[k]
        else:
            t[k] = v[k] / 2.0
            t[NFFT - k] = v[k] / 2.0
    return t


def from_two(t, sides, NFFT):
    if sides == 'twosided':
        return t.copy()
    if sides == 'centerdc':
        return np.fft.fftshift(t)
    L = refs.onesided_len(NFFT)
    o = np.zeros(L)
    o[0] = t[0]
    for k in range(1, L):
        o[k] = t[k] if (NFFT % 2 == 0 and k == NFFT // 2) else t[k] + t[NFFT - k]
    return o


def model_convert(v, src, dst, NFFT):
    if len(v) != (refs.onesided_len(NFFT) if src == 'onesided' else NFFT):
        return None                      # the stored vector is not a valid layout of NFFT points
    return from_two(to_two(v, src, NFFT), dst, NFFT)


# ----------------------------------------------------------------- frozen restatement of today's code (F08)
def _cshift(a, k):
    return np.roll(np.asarray(a), k)


def fz_two2one(v):
    v = np.asarray(v)
    if len(v) % 2:
        raise AssertionError
    N = len(v)
    o = np.array(v[0:N // 2 + 1]) * 2.0
    o[0] /= 2.0
    o[-1] = v[-1]
    return o


def fz_one2two(v):
    v = np.asarray(v)
    t = np.concatenate((v[0:-1], _cshift(v[-1:0:-1], -1))) / 2.0
    t[0] *= 2.0
    t[-1] *= 2.0
    return t


def fz_two2cdc(v):
    v = np.asarray(v)
    N = len(v)
    n = np.concatenate((_cshift(v[N // 2:], 1), v[0:N // 2]))
    n[0] = v[-1]
    return n


def fz_cdc2two(v):
    v = np.asarray(v)
    N = len(v)
    return np.concatenate((v[N // 2:], _cshift(v[0:N // 2], -1)))


def fz_convert(v, src, dst):
    v = np.asarray(v, dtype=float)
    if src == dst:
        return v
    if src == 'onesided' and dst == 'twosided':
        n = np.concatenate((v[0:-1] / 2.0, (v[0:-1] / 2.0)[::-1]))
        n[-1] = v[-1]
        n[0] *= 2.0
        return n
    if src == 'onesided' and dst == 'centerdc':
        n = np.concatenate((v[-1:0:-1] / 2.0, v[0:-1] / 2.0))
        n[0] = v[-1]
        return n
    if src == 'twosided' and dst == 'onesided':
        mid = int((len(v) - 2) / 2)
        n = np.array(v[0:mid + 2] * 2)
        n[0] /= 2
        n[-1] = v[-1]
        return n
    if src == 'twosided' and dst == 'centerdc':
        return fz_two2cdc(v)
    if src == 'centerdc' and dst == 'onesided':
        mid = int(len(v) / 2)
        return np.append(v[mid:] * 2, v[0])
    if src == 'centerdc' and dst == 'twosided':
        return fz_cdc2two(v)
    raise ValueError


def charact_equal(got, frozen_fn):
    def ch(which):
        if which != 'frozen-conversion-branches':
            return False
        try:
            fz = frozen_fn()
        except Exception:
            return False
        g = np.asarray(got, dtype=float)
        return fz.shape == g.shape and np.array_equal(fz, g)
    return ch


def setup(c):
    psd = smod('psd')
    tools = smod('tools')
    reach.watch(c, {'Spectrum.get_converted_psd': psd.Spectrum.get_converted_psd, 'Spectrum._setSides': psd.Spectrum._setSides,
                    'twosided_2_onesided': tools.twosided_2_onesided, 'onesided_2_twosided': tools.onesided_2_twosided,
                    'twosided_2_centerdc': tools.twosided_2_centerdc, 'centerdc_2_twosided': tools.centerdc_2_twosided,
                    'cshift': tools.cshift, 'Range.centerdc_gen': psd.Range.centerdc_gen})
    c.extra['abstract_states'] = []
    c.extra['transitions_seen'] = []
    reach.cover(c, {'Spectrum.get_converted_psd': psd.Spectrum.get_converted_psd, 'Spectrum._setSides': psd.Spectrum._setSides})


def all_paths(symbols, maxlen):
    for n in range(1, maxlen + 1):
        for p in itertools.product(symbols, repeat=n):
            yield list(p)


def cases(c):
    rng = c.rng('cases')
    out = []
    quick = c.tier == 'quick'
    nffts = [2, 3, 4, 5, 8, 9, 16, 17] + ([] if quick else [32, 33, 64, 65])
    for cplx in (0, 1):
        for NFFT in nffts:
            L = NFFT if cplx else refs.onesided_len(NFFT)
            vecs = list(range(L)) + ['rand']
            if NFFT > 17:
                vecs = [0, 1, L // 2, L - 2, L - 1, 'rand']
            for v in vecs:
                # [max length, keep every n-th path]: exhaustive for small NFFT, strided beyond (quick tier)
                spec = [4, 1] if (NFFT <= 9 or not quick) else [4, 4]
                out.append({'form': 'paths', 'cplx': cplx, 'NFFT': NFFT, 'vec': v, 'pathset': spec,
                            'directed': NFFT in (2, 3, 4, 5)})
            # the same grid reached through NFFT=None (data length) and NFFT='nextpow2'
            out.append({'form': 'paths', 'cplx': cplx, 'NFFT': NFFT, 'vec': 'rand', 'pathset': [2, 1], 'how': 'None'})
            if NFFT >= 4 and (NFFT & (NFFT - 1)) == 0:
                out.append({'form': 'paths', 'cplx': cplx, 'NFFT': NFFT, 'vec': 'rand', 'pathset': [2, 1], 'how': 'nextpow2'})
    for i in range(20 if quick else 7200):
        NFFT = int(rng.integers(18, 258))
        cplx = int(rng.integers(0, 2))
        syms = SIDES if not cplx else SIDES[1:]
        ps = [[gen.pick(rng, syms) for _ in range(int(rng.integers(1, 5)))] for _ in range(12)]
        out.append({'form': 'paths', 'cplx': cplx, 'NFFT': NFFT, 'vec': 'rand', 'paths': ps, 'i': i})
    # the frequency axes alone (no PSD needed): every NFFT up to 400 (2048 sampled in the thorough tier) x sampling
    # rates whose quotient sampling/NFFT is not exactly representable, before and after a sampling re-assignment
    fss = [1.0, 2.0, 1024.0, 44100.0, 0.05, 1000.0, 3.0]
    for NFFT in range(2, 401 if quick else 1025):
        out.append({'form': 'axis', 'NFFT': NFFT, 'cplx': NFFT % 2, 'fs': fss[NFFT % len(fss)], 'fs2': fss[(NFFT // 7 + 1 + NFFT) % len(fss)]})
        out.append({'form': 'axis', 'NFFT': NFFT, 'cplx': 1 - NFFT % 2, 'fs': fss[(NFFT + 3) % len(fss)], 'fs2': fss[(NFFT + 5) % len(fss)]})
    for i in range(0 if quick else 3000):
        out.append({'form': 'axis', 'NFFT': int(rng.integers(1025, 4097)), 'cplx': int(rng.integers(0, 2)),
                    'fs': float(gen.pick(rng, fss)), 'fs2': float(gen.pick(rng, fss)), 'i': i})
    for n in ([2, 3, 4, 5, 8, 9, 16, 17, 1030, 2048, 2049] + ([] if quick else [33, 64, 101, 4096, 4099])):
        out.append({'form': 'helpers', 'n': n, 'directed': True})
    # long grids through the class conversions too (implementations may switch algorithm with the length)
    for NFFT in ((2048, 2050, 2051) if quick else (1026, 2048, 2050, 2051, 4096, 4097)):
        for cplx in (0, 1):
            out.append({'form': 'paths', 'cplx': cplx, 'NFFT': NFFT, 'vec': 'rand', 'pathset': [2, 1], 'long': True})
    for i in range(10 if quick else 4800):
        out.append({'form': 'arma2psd', 'NFFT': int(gen.pick(rng, [8, 9, 16, 33, 64, 65, 128])), 'cplx': int(rng.integers(0, 2)),
                    'la': int(rng.integers(1, 5)), 'lb': int(rng.integers(0, 4)), 'i': i})
    return out


def make_vec(c, d, L):
    if d['vec'] == 'rand':
        return c.rng(d, 'v').uniform(0.5, 2.0, L)
    v = np.zeros(L)
    v[d['vec']] = 1.0
    return v


def note_state(c, cplx, NFFT, sides, op=None, nxt=None):
    st = '%s|%s|%s' % ('complex' if cplx else 'real', 'odd' if NFFT % 2 else 'even', sides)
    if st not in c.extra['abstract_states']:
        c.extra['abstract_states'].append(st)
    if op is not None:
        tr = '%s --%s--> %s' % (st, op, nxt)
        if tr not in c.extra['transitions_seen']:
            c.extra['transitions_seen'].append(tr)


def axis_of(sides, NFFT, fs):
    if sides == 'centerdc':
        return (np.arange(NFFT) - NFFT // 2) * fs / float(NFFT)
    if sides == 'twosided':
        return np.arange(NFFT) * fs / float(NFFT)
    return np.arange(refs.onesided_len(NFFT)) * fs / float(NFFT)


def axis_case(c, d):
    """frequencies(sides) of one object: on the grid k*sampling/NFFT with one entry per value of that layout, when
    first asked, after the sampling rate of the same object is re-assigned, and after it is assigned back."""
    import spectrum
    NFFT, cplx = d['NFFT'], bool(d['cplx'])
    c.set_nontrivial(True)
    feats = {'datatype': 'complex' if cplx else 'real', 'nfft_odd': bool(NFFT % 2), 'form': 'axis'}
    data = (np.ones(2) * (1 + 1j)) if cplx else np.ones(2)
    try:
        s = spectrum.Spectrum(data, NFFT=NFFT, sampling=d['fs'])
        for stage, fs in (('constructed', d['fs']), ('sampling-reassigned', d['fs2']), ('sampling-assigned-back', d['fs'])):
            if stage != 'constructed':
                s.sampling = fs
            for sides in SIDES:
                fr = np.asarray(s.frequencies(sides), dtype=float)
                ref = axis_of(sides, NFFT, fs)
                c.compare('axis:frequencies(sides)-on-the-DFT-grid', fr, ref, 1e-12, dict(feats, dst=sides, stage=stage),
                          scale=fs, detail={'NFFT': NFFT, 'fs': fs, 'stage': stage, 'sides': sides})
            c.compare('axis:df-is-sampling/NFFT', float(s.df), fs / float(NFFT), 1e-15, dict(feats, stage=stage),
                      scale=fs / float(NFFT))
    except Exception as exc:
        c.exception('axis', exc, feats)


def run_case(c, d):
    import spectrum
    if d['form'] == 'helpers':
        return helpers_case(c, d)
    if d['form'] == 'arma2psd':
        return arma2psd_case(c, d)
    if d['form'] == 'axis':
        return axis_case(c, d)
    cplx, NFFT = bool(d['cplx']), d['NFFT']
    L = NFFT if cplx else refs.onesided_len(NFFT)
    v0 = make_vec(c, d, L)
    start = 'twosided' if cplx else 'onesided'
    how = d.get('how', 'int')
    ndata = NFFT if how == 'None' else (NFFT - 1 if how == 'nextpow2' else 2)
    data = (np.ones(ndata) * (1 + 1j)) if cplx else np.ones(ndata)
    nfft_arg = None if how == 'None' else ('nextpow2' if how == 'nextpow2' else NFFT)
    c.set_nontrivial(True)
    base_feats = {'datatype': 'complex' if cplx else 'real', 'nfft_odd': bool(NFFT % 2)}
    if 'pathset' in d:
        syms = SIDES if not cplx else SIDES[1:]
        paths = list(all_paths(syms, d['pathset'][0]))[::d['pathset'][1]]
    else:
        paths = d['paths']
    c.count('paths_walked', len(paths))
    for path in paths:
        try:
            s = spectrum.Spectrum(data, NFFT=nfft_arg)
            s.psd = v0
        except Exception as exc:
            c.exception('setup', exc, base_feats)
            return
        if s.NFFT != NFFT or s.sides != start:
            c.fail('setup:psd-setter-keeps-NFFT-and-default-sides', {'NFFT': s.NFFT, 'sides': s.sides, 'want': NFFT}, base_feats)
            return
        # direct conversions from the pristine object (clause d)
        direct = {}
        cur_sides, cur = start, np.array(v0, copy=True)
        note_state(c, cplx, NFFT, cur_sides)
        ok_path = True
        for step, dst in enumerate(path):
            feats = dict(base_feats, src=cur_sides, dst=dst, layout='private-nyquist-last')
            try:
                s.sides = dst
                got = np.asarray(s.psd, dtype=float)
                fr = s.frequencies()
                rep = s.sides
            except Exception as exc:
                def ch(which, cur=cur, cur_sides=cur_sides, dst=dst):
                    if which != 'frozen-conversion-branches':
                        return False
                    try:
                        fz_convert(cur, cur_sides, dst)
                    except Exception:
                        return True
                    return False
                c.exception('conversion', exc, feats, charact=ch)
                ok_path = False
                break
            note_state(c, cplx, NFFT, cur_sides, 'sides=%s' % dst, rep)
            # the reported axis itself lies on the DFT grid of NFFT points (sampling = 1)
            if dst == 'centerdc':
                axis = (np.arange(NFFT) - NFFT // 2) / float(NFFT)
            elif dst == 'twosided':
                axis = np.arange(NFFT) / float(NFFT)
            else:
                axis = np.arange(refs.onesided_len(NFFT)) / float(NFFT)
            c.compare('axis:frequencies(sides)-on-the-DFT-grid', np.asarray(fr, dtype=float), axis, 1e-12,
                      dict(base_feats, dst=dst), scale=1.0, detail={'NFFT': NFFT})
            c.require('sides-attribute-reports-the-assigned-layout', rep == dst, {'got': rep, 'want': dst}, base_feats)
            frozen = (lambda cur=cur, cs=cur_sides, dst=dst: fz_convert(cur, cs, dst))
            ch = charact_equal(got, frozen)
            # (a) one value per reported frequency
            c.require('a:one-value-per-reported-frequency', len(got) == len(fr),
                      {'psd': len(got), 'freqs': len(fr), 'NFFT': NFFT, 'path': path[:step + 1]}, feats, charact=ch)
            # (b)+(c) per step against the model
            ref = model_convert(cur, cur_sides, dst, NFFT)
            if ref is None:
                c.fail('b:value-at-the-entry-of-its-frequency', {'why': 'stored vector is not a valid %s layout of NFFT=%d'
                                                                 % (cur_sides, NFFT), 'len': len(cur)}, feats, charact=ch)
            else:
                c.compare('b:value-at-the-entry-of-its-frequency', got, ref, 1e-12, feats, scale=max(1.0, float(np.max(ref))),
                          detail={'NFFT': NFFT, 'path': path[:step + 1], 'stored': cur[:8]}, charact=ch)
            c.compare('c:total-power-preserved', float(np.sum(got)), float(np.sum(cur)), 1e-12, feats,
                      scale=float(np.sum(cur)) or 1.0, detail={'NFFT': NFFT, 'path': path[:step + 1]}, charact=ch)
            cur_sides, cur = dst, got
        if not ok_path:
            continue
        # (d) path independence: equals the direct conversion of the pristine object to the final sides
        final = path[-1]
        try:
            s2 = spectrum.Spectrum(data, NFFT=nfft_arg)
            s2.psd = v0
            dgot = np.asarray(s2.get_converted_psd(final), dtype=float)
        except Exception as exc:
            c.exception('direct-conversion', exc, dict(base_feats, src=start, dst=final, layout='private-nyquist-last'))
            continue

        def ch_path(which, path=path, cur=cur, dgot=dgot, final=final):
            if which != 'frozen-conversion-branches':
                return False
            try:
                v, sd = np.array(v0, copy=True), start
                for dst in path:
                    v, sd = fz_convert(v, sd, dst), dst
                dz = fz_convert(np.array(v0, copy=True), start, final)
            except Exception:
                return False
            return v.shape == cur.shape and np.array_equal(v, cur) and dz.shape == dgot.shape and np.array_equal(dz, dgot)
        feats = dict(base_feats, dst=final, layout='private-nyquist-last', pathlen=len(path))
        c.compare('d:path-independent(equals-direct-conversion)', cur, dgot, 1e-12, feats,
                  scale=max(1.0, float(np.max(np.abs(dgot)))) if dgot.size else 1.0, detail={'NFFT': NFFT, 'path': path},
                  charact=ch_path)
        # (e) returning to the original sides restores the original values
        try:
            s.sides = start
            back = np.asarray(s.psd, dtype=float)
        except Exception as exc:
            c.exception('return-conversion', exc, dict(base_feats, src=cur_sides, dst=start, layout='private-nyquist-last'))
            continue

        def ch_back(which, path=path, back=back):
            if which != 'frozen-conversion-branches':
                return False
            try:
                v, sd = np.array(v0, copy=True), start
                for dst in path + [start]:
                    v, sd = fz_convert(v, sd, dst), dst
            except Exception:
                return False
            return v.shape == back.shape and np.array_equal(v, back)
        c.compare('e:round-trip-restores-the-original', back, v0, 1e-14, dict(base_feats, layout='private-nyquist-last', pathlen=len(path)),
                  scale=max(1.0, float(np.max(v0))), detail={'NFFT': NFFT, 'path': path}, charact=ch_back)


def helpers_case(c, d):
    tools = smod('tools')
    n = d['n']
    c.set_nontrivial(True)
    rng = c.rng(d, 'h')
    L = refs.onesided_len(n)
    vecs2 = [np.eye(n)[j] for j in range(min(n, 9))] + [rng.uniform(0.5, 2, n)]
    vecs1 = [np.eye(L)[j] for j in range(min(L, 9))] + [rng.uniform(0.5, 2, L)]
    plan = [('twosided_2_centerdc', vecs2, 'twosided', 'centerdc', fz_two2cdc),
            ('centerdc_2_twosided', vecs2, 'centerdc', 'twosided', fz_cdc2two),
            ('onesided_2_twosided', vecs1, 'onesided', 'twosided', fz_one2two)]
    sym = []
    for v in vecs1:                       # symmetric two-sided vectors (real data) for the folding helper
        sym.append(to_two(v, 'onesided', n))
    plan.append(('twosided_2_onesided', sym, 'twosided', 'onesided', fz_two2one))
    for name, vecs, src, dst, fz in plan:
        fn = getattr(tools, name)
        for v in vecs:
            feats = {'helper': name, 'nfft_odd': bool(n % 2), 'layout': 'private-nyquist-last'}
            try:
                got = np.asarray(fn(np.array(v, copy=True)), dtype=float)
            except Exception as exc:
                def ch(which, v=v, fz=fz):
                    if which != 'frozen-conversion-branches':
                        return False
                    try:
                        fz(v)
                    except Exception:
                        return True
                    return False
                c.exception('helper', exc, feats, charact=ch)
                continue
            ch = charact_equal(got, lambda v=v, fz=fz: fz(v))
            ref = model_convert(v, src, dst, n)
            c.compare('helper:value-at-the-entry-of-its-frequency', got, ref, 1e-12, feats, scale=max(1.0, float(np.max(ref))),
                      detail={'n': n, 'v': v[:8]}, charact=ch)
            c.compare('helper:total-power-preserved', float(np.sum(got)), float(np.sum(v)), 1e-12, feats,
                      scale=float(np.sum(v)) or 1.0, detail={'n': n}, charact=ch)
    # cshift is a plain circular rotation
    for off in (-3, -1, 0, 1, 2, n, 2.0):
        v = rng.uniform(0, 1, n)
        try:
            got = np.asarray(tools.cshift(v, off))
            c.compare('helper:cshift-is-a-circular-rotation', got, np.roll(v, int(off)), 0.0, {'helper': 'cshift'}, scale=1.0)
        except Exception as exc:
            c.exception('helper', exc, {'helper': 'cshift'})
    # round trips of the helpers (hold today)
    for v in vecs2:
        try:
            back = np.asarray(tools.centerdc_2_twosided(tools.twosided_2_centerdc(np.array(v, copy=True))), dtype=float)
        except Exception as exc:
            c.exception('helper', exc, {'helper': 'two->cdc->two'})
            continue

        def ch(which, v=v, back=back):
            if which != 'frozen-conversion-branches':
                return False
            z = fz_cdc2two(fz_two2cdc(v))
            return z.shape == back.shape and np.array_equal(z, back)
        c.compare('helper:two->cdc->two-restores', back, v, 1e-14, {'helper': 'two->cdc->two', 'nfft_odd': bool(n % 2),
                                                                      'layout': 'private-nyquist-last'}, scale=1.0, charact=ch)


def arma2psd_case(c, d):
    import spectrum
    rng = c.rng(d, 'ab')
    cplx = bool(d['cplx'])
    c.set_nontrivial(True)
    A = gen.stable_poly(rng, d['la'], cplx)[1:]
    B = gen.stable_poly(rng, d['lb'], cplx, 0.8)[1:] if d['lb'] else None
    NFFT = d['NFFT']
    feats = {'fn': 'arma2psd', 'nfft_odd': bool(NFFT % 2), 'layout': 'private-nyquist-last'}
    try:
        two = np.asarray(spectrum.arma2psd(A=A, B=B, rho=1.3, T=2.0, NFFT=NFFT))
        cdc = np.asarray(spectrum.arma2psd(A=A, B=B, rho=1.3, T=2.0, NFFT=NFFT, sides='centerdc'))
    except Exception as exc:
        c.exception('arma2psd', exc, feats)
        return
    ch = charact_equal(cdc, lambda: fz_two2cdc(two))
    c.compare('arma2psd(centerdc):value-at-the-entry-of-its-frequency', cdc, np.fft.fftshift(two), 1e-12, feats,
              scale=float(np.max(two)), detail={'NFFT': NFFT}, charact=ch)
    c.compare('arma2psd(centerdc):total-power-preserved', float(np.sum(cdc)), float(np.sum(two)), 1e-12, feats,
              scale=float(np.sum(two)), charact=ch)
