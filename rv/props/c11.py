"""C11 — linear-prediction representations convert losslessly into each other.

Contracts on every converter judge each call from its own arguments against
the monitor's step-up / step-down recursions and closed forms; the workload
drives all ordered pairs of representations from one generated ground truth
(reflection coefficients k, r0) and checks the compositions on the real
outputs (commutation, round trips).
"""
import numpy as np

from .. import install, refs, gen, reach
from ..install import ctx as _ctx
from .c10 import rc_profile, PROFILES

REPO_TESTS_UNDER_CONTRACTS = True
RULE = ('cases = (order 1..16, real/complex, |k| profile in {small, uniform, near 0.98, alternating, '
        'mixed}, r0 scale); each case drives all six ac/poly/rc converters, LAR/IS and LSF (real) and '
        'their compositions; non-trivial when order >= 2; distinct = distinct descriptor')
ASSUMPTIONS = ['own step-up/step-down recursions and numpy.linalg.solve are the reference',
               'tolerance 1e-10 * g with g = prod 1/(1-|k_i|^2) (error amplification of the step-down '
               'recursion); parameter sets with g > 1e5 are discarded by guard and counted',
               'LSF / LAR / IS are real-only by definition']
REQUIRED_ANCHORS = ('ac2poly', 'ac2rc', 'poly2ac', 'poly2rc', 'rc2poly', 'rc2ac', 'rc2lar', 'lar2rc',
                    'rc2is', 'is2rc', 'poly2lsf', 'lsf2poly')
GMAX = 1e5


def _gain(k):
    k = np.asarray(k)
    if np.any(np.abs(k) >= 1):
        return np.inf
    return float(np.prod(1.0 / (1.0 - np.abs(k) ** 2)))


def _tol(g):
    # rounding amplified by the gain g = prod 1/(1-|k|^2) of the parameter set; 1.09e-10 g is the largest error seen on
    # the unchanged tree in ~2e6 sets (order 16, g = 7e4)
    return 3e-10 * max(1.0, g)


def _vec(v):
    try:
        a = np.asarray(v)
        return a.ndim == 1 and len(a) >= 1 and np.all(np.isfinite(a))
    except Exception:
        return False


def _pd_ac(data):
    """Is `data` a clearly positive-definite autocorrelation? returns (ok, k_ref, a_ref, e_ref, g)."""
    r = np.asarray(data, dtype=complex)
    p = len(r) - 1
    if p < 1 or not np.real(r[0]) > 0:
        return False, None, None, None, None
    rr = r.copy()
    rr[0] = rr[0].real
    lam = np.linalg.eigvalsh(refs.herm_toeplitz(rr))
    if lam[0] <= 1e-9 * lam[-1]:
        return False, None, None, None, None
    a, e = refs.levinson_ref(rr, p)
    k = refs.stepdown(np.concatenate([[1.0], a]))
    return True, k, a, e, _gain(k)


def post_ac2poly(data, result):
    c = _ctx()
    if not _vec(data):
        return c.discard('ac2poly:domain')
    ok, k, a, e, g = _pd_ac(data)
    if not ok or g > GMAX:
        return c.discard('ac2poly:not-clearly-PD-or-ill-conditioned')
    feats = {'fn': 'ac2poly', 'cplx': bool(np.iscomplexobj(np.asarray(data)))}
    got_a, got_e = result
    c.compare('ac2poly:poly', np.asarray(got_a), np.concatenate([[1.0], a]), _tol(g), feats,
              scale=1.0 + float(np.max(np.abs(a))))
    c.compare('ac2poly:error', got_e, e, _tol(g), feats, scale=float(np.real(np.asarray(data)[0])))


def post_ac2rc(data, result):
    c = _ctx()
    if not _vec(data):
        return c.discard('ac2rc:domain')
    ok, k, a, e, g = _pd_ac(data)
    if not ok or g > GMAX:
        return c.discard('ac2rc:not-clearly-PD-or-ill-conditioned')
    feats = {'fn': 'ac2rc', 'cplx': bool(np.iscomplexobj(np.asarray(data)))}
    got_k, got_r0 = result
    c.compare('ac2rc:reflection', np.asarray(got_k), k, _tol(g), feats, scale=1.0)
    c.compare('ac2rc:r0', got_r0, np.asarray(data)[0], 0.0, feats, scale=1.0)


def _minphase(poly):
    a = np.asarray(poly, dtype=complex)
    if len(a) < 2 or a[0] != 1:
        return False, None, None
    k = refs.stepdown(a)
    if np.any(~np.isfinite(k)) or np.any(np.abs(k) >= 1):
        return False, None, None
    return True, k, _gain(k)


def post_poly2rc(a, efinal, result):
    c = _ctx()
    if not _vec(a):
        return c.discard('poly2rc:domain')
    ok, k, g = _minphase(a)
    if not ok or g > GMAX:
        return c.discard('poly2rc:not-minimum-phase-or-ill-conditioned')
    c.compare('poly2rc:reflection', np.asarray(result), k, _tol(g),
              {'fn': 'poly2rc', 'cplx': bool(np.iscomplexobj(np.asarray(a)))}, scale=1.0)


def post_poly2ac(poly, efinal, result):
    c = _ctx()
    if not _vec(poly) or not np.isfinite(efinal) or not np.real(efinal) > 0:
        return c.discard('poly2ac:domain')
    ok, k, g = _minphase(poly)
    if not ok or g > GMAX:
        return c.discard('poly2ac:not-minimum-phase-or-ill-conditioned')
    r0 = np.real(efinal) * g
    ref = refs.ac_from_rc(k, r0)
    c.compare('poly2ac:autocorrelation', np.asarray(result), ref, _tol(g),
              {'fn': 'poly2ac', 'cplx': bool(np.iscomplexobj(np.asarray(poly)))}, scale=float(r0))


def post_rc2poly(kr, r0, result):
    c = _ctx()
    if not _vec(kr) or np.any(np.abs(np.asarray(kr)) >= 1):
        return c.discard('rc2poly:domain')
    k = np.asarray(kr)
    g = _gain(k)
    feats = {'fn': 'rc2poly', 'cplx': bool(np.iscomplexobj(k))}
    got_a, got_e = result
    ref = refs.stepup(k)
    c.compare('rc2poly:poly', np.asarray(got_a), ref, 1e-12, feats, scale=float(np.max(np.abs(ref))))
    if r0 is not None:
        e = np.real(r0) * float(np.prod(1 - np.abs(k) ** 2))
        c.compare('rc2poly:error', got_e, e, 1e-12, feats, scale=abs(e))


def post_rc2ac(k, R0, result):
    c = _ctx()
    if not _vec(k) or np.any(np.abs(np.asarray(k)) >= 1) or not np.real(R0) > 0:
        return c.discard('rc2ac:domain')
    kk = np.asarray(k)
    g = _gain(kk)
    if g > GMAX:
        return c.discard('rc2ac:ill-conditioned')
    ref = refs.ac_from_rc(kk, np.real(R0))
    got = np.asarray(result)
    feats = {'fn': 'rc2ac', 'cplx': bool(np.iscomplexobj(kk))}
    if np.isrealobj(kk) and np.iscomplexobj(got):
        c.count('observation:rc2ac-returns-complex-dtype-for-real-input')
    c.compare('rc2ac:autocorrelation', got, ref, _tol(g), feats, scale=float(np.real(R0)))


def _realvec(v):
    return _vec(v) and np.isrealobj(np.asarray(v))


def post_rc2lar(k, result):
    c = _ctx()
    if not _realvec(k) or np.max(np.abs(k)) >= 1:
        return c.discard('rc2lar:domain')
    kk = np.asarray(k, dtype=float)
    ref = np.log((1 + kk) / (1 - kk))
    c.compare('rc2lar:closed-form', np.asarray(result), ref, 1e-12, {'fn': 'rc2lar'},
              scale=max(1.0, float(np.max(np.abs(ref)))))


def post_lar2rc(g, result):
    c = _ctx()
    if not _realvec(g):
        return c.discard('lar2rc:domain')
    gg = np.asarray(g, dtype=float)
    ref = (np.exp(gg) - 1) / (np.exp(gg) + 1)
    c.compare('lar2rc:closed-form', np.asarray(result), ref, 1e-12, {'fn': 'lar2rc'}, scale=1.0)


def post_rc2is(k, result):
    c = _ctx()
    if not _realvec(k) or np.max(np.abs(k)) >= 1:
        return c.discard('rc2is:domain')
    ref = (2 / np.pi) * np.arcsin(np.asarray(k, dtype=float))
    c.compare('rc2is:closed-form', np.asarray(result), ref, 1e-12, {'fn': 'rc2is'}, scale=1.0)


def post_is2rc(inv_sin, result):
    c = _ctx()
    if not _realvec(inv_sin) or np.max(np.abs(inv_sin)) > 1:
        return c.discard('is2rc:domain')
    ref = np.sin(np.asarray(inv_sin, dtype=float) * np.pi / 2)
    c.compare('is2rc:closed-form', np.asarray(result), ref, 1e-12, {'fn': 'is2rc'}, scale=1.0)


def lsf_ref(a):
    """LSFs by rooting the full sum/difference polynomials (no deconvolution)."""
    a = np.asarray(a, dtype=float)
    a1 = np.concatenate([a, [0.0]])
    a2 = a1[::-1]
    ang = []
    for poly in (a1 - a2, a1 + a2):
        rt = np.roots(poly)
        w = np.angle(rt)
        ang += [v for v in w if 1e-7 < v < np.pi - 1e-7]
    return np.array(sorted(ang))


def post_poly2lsf(a, result):
    c = _ctx()
    if not _realvec(a) or len(a) < 2 or np.asarray(a)[0] != 1:
        return c.discard('poly2lsf:domain')
    ok, k, g = _minphase(a)
    if not ok or g > 1e3 or len(a) - 1 > 16:
        return c.discard('poly2lsf:not-minimum-phase-or-ill-conditioned')
    got = np.asarray(result, dtype=float)
    p = len(a) - 1
    feats = {'fn': 'poly2lsf'}
    if not c.require('poly2lsf:length', got.shape == (p,), {'len': list(got.shape), 'order': p}, feats):
        return
    c.require('poly2lsf:strictly-increasing-in-(0,pi)',
              bool(np.all(np.diff(got) > 0) and got[0] > 0 and got[-1] < np.pi),
              {'lsf': got}, feats)
    ref = lsf_ref(a)
    if ref.shape == got.shape:
        c.compare('poly2lsf:independent-roots', got, ref, 1e-6, feats, scale=1.0)
    else:
        c.discard('poly2lsf:reference-root-count')


def post_lsf2poly(lsf, result):
    c = _ctx()
    if not _realvec(lsf):
        return c.discard('lsf2poly:domain')
    l = np.asarray(lsf, dtype=float)
    if np.any(np.diff(l) <= 1e-6) or l[0] <= 1e-6 or l[-1] >= np.pi - 1e-6 or len(l) > 16:
        return c.discard('lsf2poly:not-strictly-increasing-inside-(0,pi)')
    got = np.asarray(result)
    p = len(l)
    feats = {'fn': 'lsf2poly'}
    if not c.require('lsf2poly:length', got.shape == (p + 1,), {'len': list(got.shape)}, feats):
        return
    # definition: P and Q have their roots on the unit circle at the odd/even LSFs (+ fixed roots)
    z = np.exp(1j * l)
    A = np.polyval(np.real(got), 1.0) if False else None
    a1 = np.concatenate([np.real(got), [0.0]])
    P1 = a1 - a1[::-1]
    Q1 = a1 + a1[::-1]
    sc = float(np.sum(np.abs(a1))) * 2
    # even-indexed LSFs are roots of the sum filter Q1, odd-indexed ones of the difference filter P1
    vq = np.abs(np.polyval(Q1, z[0::2]))
    vp = np.abs(np.polyval(P1, z[1::2])) if p > 1 else np.zeros(0)
    c.compare('lsf2poly:roots-of-sum-filter', vq, np.zeros_like(vq), 1e-8, feats, scale=sc)
    c.compare('lsf2poly:roots-of-difference-filter', vp, np.zeros_like(vp), 1e-8, feats, scale=sc)
    c.compare('lsf2poly:monic', got[0], 1.0, 1e-12, feats, scale=1.0)


CONTRACTS = [('ac2poly', post_ac2poly), ('ac2rc', post_ac2rc), ('poly2ac', post_poly2ac),
             ('poly2rc', post_poly2rc), ('rc2poly', post_rc2poly), ('rc2ac', post_rc2ac),
             ('rc2lar', post_rc2lar), ('lar2rc', post_lar2rc), ('rc2is', post_rc2is),
             ('is2rc', post_is2rc), ('poly2lsf', post_poly2lsf), ('lsf2poly', post_lsf2poly)]


def post_levup(acur, knxt, ecur, result):
    """One step up: [1, a, 0] + k [0, conj(reversed a), 1]; error (1 - |k|^2) ecur."""
    c = _ctx()
    try:
        a = np.asarray(acur, dtype=complex)
        k = complex(knxt)
        ok = a.ndim == 1 and len(a) >= 1 and a[0] == 1 and np.all(np.isfinite(a)) and abs(k) < 1
    except Exception:
        ok = False
    if not ok:
        return c.discard('levup:domain')
    feats = {'fn': 'levup', 'cplx': bool(np.iscomplexobj(np.asarray(acur)) or np.iscomplexobj(np.asarray(knxt))),
             'poly_complex_k_real': bool(np.iscomplexobj(np.asarray(acur)) and not np.iscomplexobj(np.asarray(knxt)))}
    ref = np.concatenate([a, [0]]) + k * np.conj(np.concatenate([a, [0]])[::-1])
    c.compare('levup:step-up', np.asarray(result[0]), ref, 1e-13, feats, scale=float(np.max(np.abs(ref))))
    if ecur is not None:
        c.compare('levup:error', result[1], (1 - abs(k) ** 2) * ecur, 1e-13, feats, scale=abs(ecur) or 1.0)


def post_levdown(anxt, enxt, result):
    c = _ctx()
    try:
        a = np.asarray(anxt, dtype=complex)
        ok = a.ndim == 1 and len(a) >= 2 and a[0] == 1 and np.all(np.isfinite(a)) and abs(a[-1]) < 1
    except Exception:
        ok = False
    if not ok:
        return c.discard('levdown:domain')
    k = a[-1]
    if 1.0 / (1 - abs(k) ** 2) > GMAX:
        return c.discard('levdown:ill-conditioned')
    feats = {'fn': 'levdown', 'cplx': bool(np.iscomplexobj(np.asarray(anxt)))}
    ref = ((a - k * np.conj(a[::-1])) / (1 - abs(k) ** 2))[:-1]
    c.compare('levdown:step-down', np.asarray(result[0]), ref, 1e-12 / (1 - abs(k) ** 2), feats,
              scale=float(np.max(np.abs(ref))))
    if enxt is not None:
        c.compare('levdown:error', result[1], enxt / (1 - abs(k) ** 2), 1e-12, feats,
                  scale=abs(enxt / (1 - abs(k) ** 2)) or 1.0)


def setup(c):
    import spectrum.linear_prediction as lp
    from ..bootstrap import smod
    reach.watch(c, {n: getattr(lp, n) for n, _ in CONTRACTS})
    reach.watch(c, {'levup': smod('levinson').levup, 'levdown': smod('levinson').levdown})
    for n, f in CONTRACTS:
        install.contract('spectrum.linear_prediction', n, f)
    install.contract('spectrum.levinson', 'levup', post_levup)
    install.contract('spectrum.levinson', 'levdown', post_levdown)


def cases(c):
    rng = c.rng('cases')
    out = []
    for p in range(1, 17):
        for cplx in (0, 1):
            for prof in PROFILES:
                out.append({'p': p, 'cplx': cplx, 'prof': prof, 'r0exp': 0, 'directed': p in (1, 2, 3, 16)})
    for i in range(1500 if c.tier == 'quick' else 216000):
        out.append({'p': int(rng.integers(1, 17)), 'cplx': int(rng.integers(0, 2)),
                    'prof': gen.pick(rng, PROFILES), 'r0exp': int(gen.pick(rng, [-10, -9, -6, -3, -2, -1, 0, 0, 1, 2, 3, 6])),
                    'i': i})
    for i in range(40 if c.tier == 'quick' else 14400):
        out.append({'p': int(rng.integers(1, 9)), 'cplx': 0, 'prof': 'integer-lags', 'r0exp': 0, 'i': i})
    return out


def run_case(c, d):
    import spectrum.linear_prediction as lp
    rng = c.rng(d, 'k')
    p, cplx = d['p'], bool(d['cplx'])
    c.set_nontrivial(p >= 2)
    if d['prof'] == 'integer-lags':
        return integer_case(c, d, rng)
    k = rc_profile(rng, p, d['prof'], cplx)
    if d.get('i', 0) % 9 == 4 and p >= 2:
        # exactly vanishing coefficients are admissible (|k| < 1): the last one or two, or one in the middle
        k = np.array(k, copy=True)
        if d['i'] % 2:
            k[-1 - (d['i'] // 9) % 2:] = 0
        else:
            k[p // 2] = 0
    r0 = 10.0 ** d['r0exp'] * rng.uniform(1, 9)
    g = _gain(k)
    if g > GMAX:
        c.discard('workload:ill-conditioned(g>1e5)')
        return
    a = refs.stepup(k)
    e = r0 * float(np.prod(1 - np.abs(k) ** 2))
    r = refs.ac_from_rc(k, r0)
    if not cplx:
        a, r = a.real, r.real
    feats = {'cplx': cplx}
    tol = _tol(g) * 10

    def call(name, *args):
        try:
            return getattr(lp, name)(*args)
        except Exception as exc:
            c.exception(name, exc, dict(feats, fn=name))
            return None

    # every ordered pair, driven from the ground truth (the contracts judge each call)
    ap = call('ac2poly', r)
    ar = call('ac2rc', r)
    pa = call('poly2ac', a, e)
    pr = call('poly2rc', a, e)
    rp = call('rc2poly', k, r0)
    ra = call('rc2ac', k, r0)
    # compositions on the real outputs: mutually inverse and commuting
    if ap is not None and ar is not None:
        viarc = call('rc2poly', ar[0], ar[1])
        if viarc is not None:
            c.compare('commute:ac->poly == ac->rc->poly', np.asarray(viarc[0]), np.asarray(ap[0]), tol,
                      feats, scale=1.0 + float(np.max(np.abs(a))))
            c.compare('commute:final-error', viarc[1], ap[1], tol, feats, scale=r0)
    if ap is not None:
        back = call('poly2ac', ap[0], ap[1])
        if back is not None:
            c.compare('roundtrip:ac->poly->ac', np.asarray(back), r, tol, feats, scale=r0)
    if rp is not None:
        back = call('poly2rc', rp[0], rp[1])
        if back is not None:
            c.compare('roundtrip:rc->poly->rc', np.asarray(back), k, tol, feats, scale=1.0)
    if ra is not None:
        back = call('ac2rc', np.asarray(ra) if cplx else np.real(np.asarray(ra)))
        if back is not None:
            c.compare('roundtrip:rc->ac->rc', np.asarray(back[0]), k, tol, feats, scale=1.0)
    if pa is not None and pr is not None:
        via = call('rc2ac', pr, np.real(np.asarray(pa)[0]))
        if via is not None:
            c.compare('commute:poly->ac == poly->rc->ac', np.asarray(via), np.asarray(pa), tol, feats, scale=r0)
    if cplx and p >= 2:
        # a complex parameter set some of whose coefficients are exactly real, handed over as a plain Python list
        # of floats and complex numbers (the contracts judge each call)
        km = np.array(k, copy=True)
        km[1::2] = km[1::2].real
        kl = [float(v.real) if v.imag == 0 else complex(v) for v in km]
        call('rc2poly', kl, r0)
        call('rc2ac', kl, r0)
        import spectrum
        am = refs.stepup(km[:-1])
        try:
            spectrum.levinson.levup(am, float(km[-1].real) if km[-1].imag == 0 else complex(km[-1]), 1.0)
            spectrum.levinson.levup(am, 0.5)                       # complex polynomial, real coefficient
            spectrum.levinson.levdown(refs.stepup(km), e)
        except Exception as exc:
            c.exception('levup/levdown', exc, dict(feats, fn='levup/levdown'))
    if not cplx:
        kr = k.real
        lar = call('rc2lar', kr)
        if lar is not None:
            back = call('lar2rc', lar)
            if back is not None:
                c.compare('roundtrip:rc->lar->rc', np.asarray(back), kr, 1e-10, feats, scale=1.0)
        isn = call('rc2is', kr)
        if isn is not None:
            back = call('is2rc', isn)
            if back is not None:
                c.compare('roundtrip:rc->is->rc', np.asarray(back), kr, 1e-10, feats, scale=1.0)
        if g <= 1e3:
            lsf = call('poly2lsf', a)
            if lsf is not None and len(lsf) == p and np.all(np.diff(lsf) > 1e-6) and lsf[0] > 1e-6 \
                    and lsf[-1] < np.pi - 1e-6:
                back = call('lsf2poly', lsf)
                if back is not None:
                    c.compare('roundtrip:poly->lsf->poly', np.asarray(back), a, 1e-6, feats,
                              scale=1.0 + float(np.max(np.abs(a))))


def integer_case(c, d, rng):
    """An autocorrelation given as integers (list / int64 array): lag products of integer data."""
    import spectrum.linear_prediction as lp
    p = d['p']
    xi = gen.data({'kind': 'int', 'N': 3 * p + 8, 'cplx': False}, rng)
    r = [int(np.dot(xi[k:], xi[:len(xi) - k])) for k in range(p + 1)]
    lam = np.linalg.eigvalsh(refs.herm_toeplitz(np.array(r, dtype=float)))
    if lam[0] <= 1e-6 * lam[-1]:
        return c.discard('workload:integer-lags-not-clearly-PD')
    for arg in (r, np.array(r, dtype=np.int64)):
        for name in ('ac2poly', 'ac2rc'):
            try:
                getattr(lp, name)(arg)           # judged by the contracts
            except Exception as exc:
                c.exception(name, exc, {'fn': name, 'cplx': False, 'integer_input': True})


def finish(c):
    install.require_evaluated(c, ['linear_prediction.%s' % n for n, _ in CONTRACTS])
