"""C10 — Levinson and the Toeplitz / Hermitian / Cholesky solvers solve their equations.

Kind-A contracts on LEVINSON, HERMTOEP, TOEPLITZ, CHOLESKY judge every call
(also the internal LEVINSON calls of aryule / lpc / ac2poly...), against the
equations themselves (explicit Toeplitz products), numpy.roots and eigvalsh.
"""
import numpy as np
import scipy.linalg

from .. import install, refs, gen, reach
from ..install import ctx as _ctx

REPO_TESTS_UNDER_CONTRACTS = True
RULE = ('cases = (solver, order p, real/complex, how the autocorrelation was generated '
        '(sample autocorrelation | step-up from reflection coefficients with a |k| profile | '
        'indefinite perturbation), container type); non-trivial when p >= 2; distinct = distinct '
        'descriptor. Systems for HERMTOEP/CHOLESKY are Hermitian PD; for TOEPLITZ diagonally dominant or general with well-conditioned leading blocks, '
        'random right-hand sides.')
ASSUMPTIONS = ['scipy.linalg.toeplitz + explicit products define the equations',
               'definiteness decided by numpy.linalg.eigvalsh with margins 1e-8 (PD) / -1e-6 (indefinite); in between is discarded',
               'TOEPLITZ admissible = every leading principal block has condition number <= 1e3 (the recursion has no pivoting); pivots of either sign / any phase are admissible']
REQUIRED_ANCHORS = ('LEVINSON', 'HERMTOEP', 'TOEPLITZ', 'CHOLESKY')


def _definiteness(r, M):
    rr = np.array(r[:M + 1], dtype=complex)
    rr[0] = rr[0].real
    lam = np.linalg.eigvalsh(refs.herm_toeplitz(rr))
    return float(lam[0]), float(lam[-1])


def post_LEVINSON(r, order, allow_singularity, result):
    c = _ctx()
    try:
        ra = np.asarray(r)
        ok = ra.ndim == 1 and len(ra) >= 2 and np.all(np.isfinite(ra))
    except Exception:
        ok = False
    if not ok:
        c.discard('LEVINSON:not-a-finite-1d-sequence')
        return
    M = len(ra) - 1 if order is None else int(order)
    if M < 1 or M > len(ra) - 1:
        c.discard('LEVINSON:order-out-of-domain')
        return
    r0 = float(np.real(ra[0]))
    if not r0 > 0:
        # a sequence with a non-positive zero lag is not positive definite: it must have been rejected
        if not allow_singularity and r0 < 0:
            c.fail('LEVINSON:indefinite-accepted', {'r0': r0, 'order': M}, {'fn': 'LEVINSON', 'cplx': bool(np.iscomplexobj(ra)),
                                                                             'negative_zero_lag': True})
        else:
            c.discard('LEVINSON:r0-not-positive')
        return
    lmin, lmax = _definiteness(ra, M)
    cplx = bool(np.iscomplexobj(ra))
    feats = {'fn': 'LEVINSON', 'cplx': cplx}
    if lmin < -1e-6 * r0:
        if not allow_singularity:
            c.fail('LEVINSON:indefinite-accepted', {'lambda_min/r0': lmin / r0, 'order': M}, feats)
        else:
            c.discard('LEVINSON:indefinite-but-singularity-allowed')
        return
    if lmin <= 1e-8 * r0:
        c.discard('LEVINSON:near-singular')
        return
    try:
        A, P, k = result
        A = np.asarray(A)
        k = np.asarray(k)
    except Exception:
        c.fail('LEVINSON:returns-triple', {'type': str(type(result))}, feats)
        return
    if A.shape != (M,) or k.shape != (M,):
        c.fail('LEVINSON:lengths', {'len_a': list(A.shape), 'len_k': list(k.shape), 'order': M}, feats)
        return
    if not cplx and not (np.isrealobj(A) and np.isrealobj(k) and np.isrealobj(P)):
        c.count('observation:LEVINSON-complex-dtype-for-real-input')          # dtype is not in the statement
    rr = np.array(ra[:M + 1], dtype=complex)
    rr[0] = r0
    T = refs.herm_toeplitz(rr)
    lhs = T @ np.concatenate([[1.0], A.astype(complex)])
    rhs = np.zeros(M + 1, dtype=complex)
    rhs[0] = P
    cond = lmax / lmin
    c.compare('LEVINSON:normal-equations', lhs, rhs, 1e-9, feats,
              scale=r0 * (1.0 + float(np.sum(np.abs(A)))), detail={'order': M, 'cond': cond})
    prod = r0 * float(np.prod(1.0 - np.abs(k) ** 2))
    # an identity between two *outputs* (P and k): it holds to rounding whatever the conditioning of r (measured on the
    # unchanged tree: <= 2e-14 relative over 4000 sequences with P/r0 down to 1e-20)
    c.compare('LEVINSON:P-product-formula', P, prod, 1e-11, feats,
              scale=max(prod, 1e-300), detail={'order': M, 'cond': cond})
    c.require('LEVINSON:P-positive', bool(np.real(P) > 0), {'P': P}, feats)
    c.require('LEVINSON:reflection-inside-unit-disc', bool(np.all(np.abs(k) < 1.0)),
              {'max|k|': float(np.max(np.abs(k)))}, feats)
    if M <= 40:
        rho = refs.max_root_modulus(np.concatenate([[1.0], A]))
        c.require('LEVINSON:stable-polynomial', rho < 1.0 + 1e-9, {'max_root_modulus': rho}, feats)


def post_HERMTOEP(T0, T, Z, result):
    c = _ctx()
    T = np.asarray(T)
    Z = np.asarray(Z)
    col = np.concatenate([[complex(T0)], T.astype(complex)])
    if len(Z) != len(col) or abs(np.imag(T0)) > 0:
        c.discard('HERMTOEP:shape-domain')
        return
    R = refs.herm_toeplitz(col)
    lam = np.linalg.eigvalsh(R)
    if lam[0] <= 1e-8 * lam[-1]:
        c.discard('HERMTOEP:not-clearly-PD')
        return
    X = np.asarray(result)
    feats = {'fn': 'HERMTOEP'}
    c.compare('HERMTOEP:residual', R @ X, Z.astype(complex), 1e-9 * (lam[-1] / lam[0]) ** 0.5, feats,
              scale=max(float(np.max(np.abs(Z))), float(np.max(np.abs(R)) * np.max(np.abs(X))), 1e-300),
              detail={'M': len(T), 'cond': float(lam[-1] / lam[0])})


def toeplitz_pivots(T0, TC, TR):
    A = scipy.linalg.toeplitz(np.concatenate([[T0], TC]), np.concatenate([[T0], TR])).astype(complex)
    piv = []
    prev = 1.0
    for m in range(1, A.shape[0] + 1):
        d = np.linalg.det(A[:m, :m])
        piv.append(d / prev)
        prev = d
    return A, np.array(piv)


def post_TOEPLITZ(T0, TC, TR, Z, result):
    c = _ctx()
    TC, TR, Z = np.asarray(TC), np.asarray(TR), np.asarray(Z)
    if len(TC) != len(TR) or len(Z) != len(TC) + 1 or len(TC) > 24:
        c.discard('TOEPLITZ:shape-domain')
        return
    try:
        A = scipy.linalg.toeplitz(np.concatenate([[T0], TC]), np.concatenate([[T0], TR])).astype(complex)
        lead = max(float(np.linalg.cond(A[:m, :m])) for m in range(1, A.shape[0] + 1))
    except Exception:
        return c.discard('TOEPLITZ:shape-domain')
    if not np.isfinite(lead) or lead > 1e3:
        # the recursion has no pivoting: it is admissible (and stable) when every leading block is well conditioned
        c.discard('TOEPLITZ:ill-conditioned-leading-block(cond>1e3)')
        return
    X = np.asarray(result)
    neg = bool(np.min(toeplitz_pivots(T0, TC, TR)[1].real) <= 0)
    c.compare('TOEPLITZ:residual', A @ X, Z.astype(complex), 1e-12 * max(1.0, lead) ** 2,
              {'fn': 'TOEPLITZ', 'pivot_with_non_positive_real_part': neg},
              scale=max(float(np.max(np.abs(Z))), float(np.max(np.abs(A)) * np.max(np.abs(X))), 1e-300),
              detail={'M': len(TC), 'max_leading_cond': lead})


def _snapA(A):
    try:
        return np.array(A, copy=True)
    except Exception:
        return None


def _snapB(B):
    try:
        return np.array(B, copy=True)
    except Exception:
        return None


def post_CHOLESKY(A, B, method, OLD, result):
    c = _ctx()
    A_after, B_after = A, B
    A, B = OLD.A0, OLD.B0                     # the system as the caller passed it
    if A is None or B is None:
        c.discard('CHOLESKY:shape-domain')
        return
    if A.ndim != 2 or A.shape[0] != A.shape[1] or B.shape[0] != A.shape[0]:
        c.discard('CHOLESKY:shape-domain')
        return
    if np.max(np.abs(A - np.conj(A.T))) > 1e-12 * np.max(np.abs(A)):
        c.discard('CHOLESKY:not-hermitian')
        return
    lam = np.linalg.eigvalsh(A)
    if lam[0] <= 1e-8 * lam[-1]:
        c.discard('CHOLESKY:not-clearly-PD')
        return
    X = np.asarray(result)
    c.compare('CHOLESKY:residual', A @ X, B, 1e-10 * (lam[-1] / lam[0]), {'fn': 'CHOLESKY', 'method': str(method)},
              scale=max(float(np.max(np.abs(B))), float(np.max(np.abs(A)) * np.max(np.abs(X))), 1e-300),
              detail={'n': A.shape[0], 'cond': float(lam[-1] / lam[0])})
    # ... and it is still the caller's system afterwards: T x = z is a statement about the arrays the caller holds
    try:
        same = np.array_equal(np.asarray(A_after), A) and np.array_equal(np.asarray(B_after), B)
    except Exception:
        same = True
    c.require('CHOLESKY:system-not-modified', bool(same), {'n': A.shape[0], 'A_changed': not np.array_equal(np.asarray(A_after), A)},
              {'fn': 'CHOLESKY', 'method': str(method)})


def setup(c):
    import spectrum
    import spectrum.toeplitz
    reach.watch(c, {'LEVINSON': spectrum.levinson.LEVINSON, 'HERMTOEP': spectrum.toeplitz.HERMTOEP,
                    'TOEPLITZ': spectrum.toeplitz.TOEPLITZ, 'CHOLESKY': spectrum.cholesky.CHOLESKY})
    install.contract('spectrum.levinson', 'LEVINSON', post_LEVINSON)
    reach.cover(c, {'LEVINSON': install.original('spectrum.levinson', 'LEVINSON'),
                    'TOEPLITZ': install.original('spectrum.toeplitz', 'TOEPLITZ'),
                    'HERMTOEP': install.original('spectrum.toeplitz', 'HERMTOEP')})
    install.contract('spectrum.toeplitz', 'HERMTOEP', post_HERMTOEP)
    install.contract('spectrum.toeplitz', 'TOEPLITZ', post_TOEPLITZ)
    install.contract('spectrum.cholesky', 'CHOLESKY', post_CHOLESKY, snapshots=[('A0', _snapA), ('B0', _snapB)])


PROFILES = ['small', 'uniform', 'near1', 'alt', 'mixed']


def structured_rhs(Z, i):
    """Every fifth right-hand side has exact zeros: a unit vector, leading zeros, trailing zeros."""
    how = i % 15
    if how not in (4, 9, 14) or len(Z) < 3:
        return Z
    Z = np.array(Z, copy=True)
    if how == 4:
        k = (i // 15) % len(Z)
        v = Z[k]
        Z[:] = 0
        Z[k] = v if v != 0 else 1.0                 # a multiple of a unit vector
    elif how == 9:
        Z[:max(1, (2 * len(Z)) // 3)] = 0            # leading zeros
    else:
        Z[len(Z) // 3:] = 0                          # trailing zeros
    return Z


def rc_profile(rng, p, prof, cplx):
    if prof == 'small':
        m = rng.uniform(0, 0.2, p)
    elif prof == 'uniform':
        m = rng.uniform(0, 0.9, p)
    elif prof == 'near1':
        m = rng.uniform(0.9, 0.98, p)
    elif prof == 'alt':
        m = rng.uniform(0.3, 0.95, p)
    else:
        m = np.where(rng.uniform(size=p) < 0.3, rng.uniform(0.9, 0.98, p), rng.uniform(0, 0.5, p))
    if cplx:
        k = m * np.exp(2j * np.pi * rng.uniform(size=p))
    else:
        s = rng.choice([-1.0, 1.0], p)
        if prof == 'alt':
            s = (-1.0) ** np.arange(p)
        k = m * s
    return k


def make_ac(c, d):
    rng = c.rng(d, 'ac')
    p = d['p']
    cplx = bool(d['cplx'])
    if d['src'] == 'sample':
        x = gen.data({'kind': d.get('kind', 'noise'), 'N': max(2 * p + 3, int(d.get('N', 64))), 'cplx': cplx}, rng)
        r = refs.biased_ac(x, p)
    else:
        k = rc_profile(rng, p, d['prof'], cplx)
        r = refs.ac_from_rc(k, 10.0 ** rng.uniform(-2, 2))
    if d.get('scale10'):
        r = r * 10.0 ** d['scale10']          # positive definiteness does not depend on the overall scale
    if d.get('indefinite') and d.get('i', 1) % 3 == 1:
        r = r.copy()
        r[0] = -abs(r[0])                # only the sign of the zero lag is wrong
        return r if cplx else r.real
    if d.get('indefinite'):
        j = int(rng.integers(1, p + 1))
        r = r.copy()
        r[j] = 1.7 * abs(r[0]) * (np.exp(2j * np.pi * rng.uniform()) if cplx else rng.choice([-1.0, 1.0]))
        if d.get('i', 0) % 3 == 0:
            r[0] = -abs(r[0])            # negative zero lag (with |r[j]| > |r[0]|: the recursion alone may not notice)
            r[1] = 1.7 * abs(r[0]) * (np.exp(2j * np.pi * rng.uniform()) if cplx else rng.choice([-1.0, 1.0]))
    if not cplx:
        r = r.real
    return r


def cases(c):
    rng = c.rng('cases')
    out = []
    pmax = 40
    for p in ([1, 2, 3, 5, 8, 16, 40] if c.tier == 'quick' else range(1, pmax + 1)):
        for cplx in (0, 1):
            out.append({'fn': 'LEVINSON', 'p': p, 'cplx': cplx, 'src': 'sample', 'kind': 'noise',
                        'cont': 'array', 'directed': True})
            for prof in PROFILES:
                out.append({'fn': 'LEVINSON', 'p': p, 'cplx': cplx, 'src': 'rc', 'prof': prof,
                            'cont': 'array', 'directed': True})
            out.append({'fn': 'LEVINSON', 'p': p, 'cplx': cplx, 'src': 'sample', 'kind': 'noise',
                        'indefinite': True, 'cont': 'array', 'directed': True})
    n = 1500 if c.tier == 'quick' else 288000
    for i in range(n):
        p = int(rng.integers(1, pmax + 1))
        src = gen.pick(rng, ['sample', 'rc', 'rc'])
        d = {'fn': 'LEVINSON', 'p': p, 'cplx': int(rng.integers(0, 2)), 'src': src,
             'cont': gen.pick(rng, ['array', 'array', 'list', 'intarray', 'intlist']), 'i': i}
        if src == 'sample':
            d['kind'] = gen.pick(rng, ['noise', 'tones', 'ar', 'int', 'trend', 'sparse'])
            d['N'] = int(rng.integers(2 * p + 3, 4 * p + 64))
        else:
            d['prof'] = gen.pick(rng, PROFILES)
        if rng.uniform() < 0.15:
            d['indefinite'] = True
        if rng.uniform() < 0.3:
            d['scale10'] = int(gen.pick(rng, [-18, -16, -12, -8, -4, 4, 8, 12]))
        out.append(d)
    for i in range(600 if c.tier == 'quick' else 96000):
        out.append({'fn': gen.pick(rng, ['HERMTOEP', 'TOEPLITZ', 'CHOLESKY']),
                    'p': int(rng.integers(1, 21)), 'cplx': int(rng.integers(0, 2)),
                    'method': gen.pick(rng, ['scipy', 'numpy', 'numpy_solver']),
                    'src': gen.pick(rng, ['sample', 'rc']), 'prof': gen.pick(rng, PROFILES[:3]), 'i': i})
    return out


def run_case(c, d):
    import spectrum
    import spectrum.toeplitz
    rng = c.rng(d, 'run')
    c.set_nontrivial(d['p'] >= 2)
    if d['fn'] == 'LEVINSON':
        r = make_ac(c, d)
        p = d['p']
        arg = list(r) if d['cont'] == 'list' else r
        if d['cont'] in ('intarray', 'intlist'):
            if d['cplx'] or d['src'] != 'sample':
                c.discard('workload:integer-container-needs-real-sample-autocorrelation')
                return
            # integer lag products of integer data: an autocorrelation with integer dtype
            xi = gen.data({'kind': 'int', 'N': max(2 * p + 3, int(d.get('N', 64))), 'cplx': False}, c.rng(d, 'xi'))
            r = np.array([int(np.dot(xi[k:], xi[:len(xi) - k])) for k in range(p + 1)], dtype=np.int64)
            if d.get('indefinite'):
                r[int(c.rng(d, 'j').integers(1, p + 1))] = 2 * r[0]
            arg = r if d['cont'] == 'intarray' else [int(v) for v in r]
        feats = {'fn': 'LEVINSON', 'cplx': bool(d['cplx'])}
        if d.get('indefinite'):
            lmin, _ = _definiteness(np.concatenate([[abs(r[0])], r[1:]]) if np.real(r[0]) < 0 else r, p)
            if np.real(r[0]) > 0 and lmin >= -1e-6 * abs(r[0]):
                c.discard('workload:perturbation-not-indefinite')
                return
            try:
                spectrum.LEVINSON(arg, allow_singularity=False)
            except ValueError:
                c.ok('LEVINSON:indefinite-rejected')
            except Exception as exc:
                c.exception('LEVINSON', exc, feats)
            # a return is judged by the contract (indefinite-accepted)
            return
        lmin, lmax = _definiteness(r, p)
        clearly_pd = lmin > 1e-8 * abs(r[0])
        try:
            A, P, k = spectrum.LEVINSON(arg)
        except Exception as exc:
            if clearly_pd:
                c.exception('LEVINSON', exc, feats)
            else:
                c.discard('workload:near-singular-autocorrelation-may-raise')
            return
        if not clearly_pd:
            return
        # nesting: lower-order solutions share the leading reflection coefficients
        for q in sorted(set([1, max(1, p // 2), max(1, p - 1)])):
            if q >= p:
                continue
            try:
                Aq, Pq, kq = spectrum.LEVINSON(arg, q)
            except Exception as exc:
                c.exception('LEVINSON', exc, feats)
                return
            c.compare('LEVINSON:nested-reflection', np.asarray(kq), np.asarray(k)[:q], 1e-12, feats,
                      scale=1.0, detail={'p': p, 'q': q})
        return
    p = d['p']
    cplx = bool(d['cplx'])
    if d['fn'] == 'HERMTOEP':
        r = make_ac(c, dict(d, src=d['src']))
        Z = structured_rhs(gen.noise(rng, p + 1, cplx), d.get('i', 0))
        sc = (1.0, 1e-9, 1e9, 1e-12)[(d.get('i', 0) // 3) % 4]        # the same system in other units
        r, Z = np.asarray(r) * sc, Z * sc
        lmin, lmax = _definiteness(r, p)
        try:
            spectrum.toeplitz.HERMTOEP(float(np.real(r[0])), np.asarray(r[1:], dtype=complex), Z)
        except Exception as exc:
            if lmin > 1e-8 * lmax:
                c.exception('HERMTOEP', exc, {'fn': 'HERMTOEP'})
            else:
                c.discard('workload:near-singular-system-may-raise')
    elif d['fn'] == 'TOEPLITZ':
        tc = gen.noise(rng, p, cplx)
        tr = gen.noise(rng, p, cplx)
        how = d.get('i', 0) % 3
        if how == 0:
            # diagonally dominant (leading minors provably non-zero)
            t0 = (2.0 + rng.uniform()) * (np.sum(np.abs(tc)) + np.sum(np.abs(tr)) + 1.0)
        else:
            # general: any sign / phase of the diagonal, modest dominance (pivots of either sign); the contract
            # keeps the systems whose leading blocks are all well conditioned
            t0 = rng.uniform(0.5, 6.0) * (gen.noise(rng, 1, cplx)[0] if cplx else rng.choice([-1.0, 1.0]))
            if how == 2:
                tc, tr = tc[:min(p, 8)], tr[:min(p, 8)]
        Z = structured_rhs(gen.noise(rng, len(tc) + 1, cplx), d.get('i', 0))
        sc = (1.0, 1e-9, 1e9, 1e-12)[(d.get('i', 0) // 3) % 4]        # the same system in other units: equally admissible
        t0, tc, tr, Z = t0 * sc, tc * sc, tr * sc, Z * sc
        args = (t0, tc.astype(complex), tr.astype(complex), Z)
        if how == 2 and d.get('i', 0) % 2:
            args = (complex(t0) if cplx else float(t0), [complex(v) for v in tc], [complex(v) for v in tr], list(Z))
        try:
            spectrum.toeplitz.TOEPLITZ(*args)
        except Exception as exc:
            A = scipy.linalg.toeplitz(np.concatenate([[t0], tc]), np.concatenate([[t0], tr]))
            lead = max(float(np.linalg.cond(A[:m, :m])) for m in range(1, A.shape[0] + 1))
            if lead <= 1e3:
                c.exception('TOEPLITZ', exc, {'fn': 'TOEPLITZ'})
            else:
                c.discard('workload:TOEPLITZ-ill-conditioned-leading-block-may-raise')
    else:
        n = p + 1
        G = gen.noise(rng, 2 * n * n, cplx).reshape(2 * n, n)
        A = np.conj(G.T) @ G / (2 * n) + 0.05 * np.eye(n)
        B = gen.noise(rng, n, cplx)
        try:
            spectrum.CHOLESKY(A, B, d['method'])
            if d.get('i', 0) % 3 == 0 and isinstance(A, np.ndarray):
                # the same matrix object, loaded on its diagonal in place, is a new system (judged by the contract)
                A[np.diag_indices(A.shape[0])] += 1.0 + abs(A[0, 0])
                spectrum.CHOLESKY(A, B, d['method'])
        except Exception as exc:
            c.exception('CHOLESKY', exc, {'fn': 'CHOLESKY', 'method': d['method']})


def finish(c):
    install.require_evaluated(c, ['levinson.LEVINSON', 'toeplitz.HERMTOEP', 'toeplitz.TOEPLITZ',
                                  'cholesky.CHOLESKY'])
