"""C15 — MA and ARMA estimators return valid, invertible models.

Contracts on ma and arma_estimate judge every call (lengths, invertibility,
positive finite variance, and for P = Q the modified Yule-Walker least-squares
clause on unbiased lags computed by the monitor).  The workload adds the
AR/MA/ARMA classes: PSD strictly positive, finite and equal to
(rho/fs)|B|^2/|A|^2 of the coefficients the object exposes.
"""
import numpy as np

from .. import install, refs, gen, reach
from ..install import ctx as _ctx
from ..bootstrap import smod

REPO_TESTS_UNDER_CONTRACTS = True
RULE = ('cases = (function ma | arma_estimate | class, data kind, real/complex, N in 16..256, '
        '(P, Q, lag) or (Q, M) in the stated domain with P on both sides of the solver switch at 4, '
        'NFFT even/odd, sampling); non-trivial when P+Q >= 3 or Q >= 2; distinct = distinct descriptor')
ASSUMPTIONS = ['unbiased lags computed by the monitor; modified Yule-Walker system solved with numpy lstsq',
               'least-squares clause evaluated when lag-Q >= P, lag < N and cond <= 1e4 (Marple branch, '
               'normal equations) / 1e8 (lstsq branch)',
               'for real data the class PSD is required to be proportional to |B|^2/|A|^2 with constant '
               'rho/fs or 2 rho/fs (one-sided doubling is C04\'s clause)']
REQUIRED_ANCHORS = ('ma', 'arma_estimate', 'arma2psd')


def _x_ok(X, nmin=4):
    try:
        x = np.asarray(X)
        return x.ndim == 1 and len(x) >= nmin and x.dtype.kind in 'fciu' \
            and np.all(np.isfinite(x)) and np.any(x)
    except Exception:
        return False


def judge_ma_part(c, tag, b, rho, Q, feats):
    b = np.asarray(b)
    ok = c.require('%s:ma-length' % tag, b.shape == (Q,), {'len': list(b.shape), 'Q': Q}, feats)
    fin = bool(np.all(np.isfinite(b))) and bool(np.isfinite(rho))
    c.require('%s:finite' % tag, fin, {'rho': rho, 'b': b[:4]}, feats)
    if not (ok and fin):
        return
    c.require('%s:variance-positive' % tag, bool(np.real(rho) > 0) and abs(np.imag(rho)) == 0, {'rho': rho}, feats)
    z = refs.max_root_modulus(np.concatenate([[1.0], b]))
    c.require('%s:ma-zeros-inside-unit-circle' % tag, z < 1.0, {'max_zero_modulus': z, 'Q': Q}, feats)


def post_ma(X, Q, M, result):
    c = _ctx()
    if not _x_ok(X):
        return c.discard('ma:data-domain')
    try:
        Q, M = int(Q), int(M)
    except Exception:
        return c.discard('ma:order-domain')
    N = len(X)
    if not (0 < Q < M < N):
        return c.discard('ma:order-domain')
    x = np.asarray(X)
    if x.dtype.kind in 'iu':
        x = x.astype(float)          # the monitor's arithmetic is floating point whatever the storage type
    # non-degenerate: the long AR fit must not be singular
    r = refs.biased_ac(x, M)
    lam = np.linalg.eigvalsh(refs.herm_toeplitz(r))
    if lam[0] <= 1e-10 * lam[-1]:
        return c.discard('ma:degenerate-data')
    feats = {'fn': 'ma', 'cplx': bool(np.iscomplexobj(x))}
    try:
        b, rho = result
    except Exception:
        return c.fail('ma:returns-pair', {}, feats)
    judge_ma_part(c, 'ma', b, rho, Q, feats)


def myw_ls(x, P, Q, lag):
    """Least-squares solution of r[n] + sum_j a_j r[n-j] = 0, n = Q+1..lag, unbiased lags."""
    r = refs.corr_def(x, x, lag, 'unbiased')

    def R(k):
        return r[k] if k >= 0 else np.conj(r[-k])
    rows = range(Q + 1, lag + 1)
    A = np.array([[R(n - j) for j in range(1, P + 1)] for n in rows])
    b = np.array([R(n) for n in rows])
    sol = np.linalg.lstsq(A, -b, rcond=None)
    sv = sol[3]
    cond = float(sv[0] / sv[-1]) if len(sv) and sv[-1] > 0 else np.inf
    return sol[0], cond


def _branch_feats(P, lag):
    # structural facts about the covariance system arma_estimate builds on `lag` samples
    return {'marple_branch': bool(P <= 4), 'lag_lt_2P': bool(lag < 2 * P), 'lag_le_P': bool(lag <= P)}


def in_domain(N, P, Q, lag):
    return P >= 1 and Q >= 1 and Q <= lag < N and lag + 2 * P - Q <= N and 2 * Q < N - P


def post_arma_estimate(X, P, Q, lag, result):
    c = _ctx()
    if not _x_ok(X, 8):
        return c.discard('arma_estimate:data-domain')
    try:
        P, Q, lag = int(P), int(Q), int(lag)
    except Exception:
        return c.discard('arma_estimate:order-domain')
    x = np.asarray(X)
    if x.dtype.kind in 'iu':
        x = x.astype(float)          # the monitor's arithmetic is floating point whatever the storage type
    N = len(x)
    if not in_domain(N, P, Q, lag):
        return c.discard('arma_estimate:order-domain')
    marple = P <= 4
    feats = dict(_branch_feats(P, lag), fn='arma_estimate', cplx=bool(np.iscomplexobj(x)))
    try:
        a, b, rho = result
    except Exception:
        return c.fail('arma_estimate:returns-triple', {}, feats)
    a = np.asarray(a)
    c.require('arma_estimate:ar-length', a.shape == (P,), {'len': list(a.shape), 'P': P}, feats)
    fin = bool(np.all(np.isfinite(a)))
    if not fin and lag - Q >= P:
        # "non-degenerate data": integer-valued records can have unbiased lags that are exactly 0 and make the
        # modified Yule-Walker system exactly singular (P = Q = 1, r[1] == 0: a = -r[2]/0) - no AR part exists
        if not np.isfinite(myw_ls(x, P, Q, lag)[1]) or myw_ls(x, P, Q, lag)[1] > 1e12:
            return c.discard('arma_estimate:degenerate-data(singular-modified-yule-walker-system)')
    c.require('arma_estimate:ar-finite', fin, {'a': a[:4], 'N': N, 'P': P, 'Q': Q, 'lag': lag}, feats)
    if fin:
        judge_ma_part(c, 'arma_estimate', b, rho, Q, feats)
    if P == Q and fin and a.shape == (P,):
        if lag - Q >= P:
            a_ls, cond = myw_ls(x, P, Q, lag)
            lim = 1e4 if marple else 1e8
            if np.isfinite(cond) and cond <= lim:
                tol = 1e-9 * (cond ** 2 if marple else cond)
                c.compare('arma_estimate:ar-is-modified-yule-walker-least-squares', a, a_ls, tol, feats,
                          scale=1 + float(np.max(np.abs(a_ls))),
                          detail={'N': N, 'P': P, 'Q': Q, 'lag': lag, 'cond': cond})
            else:
                c.discard('arma_estimate:myw:cond-guard')
        else:
            c.discard('arma_estimate:myw:under-determined')


def setup(c):
    reach.watch(c, {'ma': smod('arma').ma, 'arma_estimate': smod('arma').arma_estimate,
                    'arma2psd': smod('arma').arma2psd})
    install.contract('spectrum.arma', 'ma', post_ma)
    install.contract('spectrum.arma', 'arma_estimate', post_arma_estimate)
    reach.cover(c, {'arma_estimate': install.original('spectrum.arma', 'arma_estimate'),
                    'arma2psd': smod('arma').arma2psd})


KINDS = ['noise', 'ar', 'arma', 'tones', 'int']
CLASSES = ['pyule', 'pburg', 'pcovar', 'pmodcovar', 'parma', 'pma']


def draw_pql(rng, N, side=None):
    for _ in range(200):
        P = int(rng.integers(1, 5)) if side == 'lo' else int(rng.integers(5, 11)) if side == 'hi' \
            else int(rng.integers(1, 11))
        Q = int(rng.integers(1, 9))
        if rng.uniform() < 0.45:
            Q = P
        lo = max(Q, P + Q if rng.uniform() < 0.8 else Q)
        hi = min(N - 1, N - 2 * P + Q)
        if hi < lo:
            continue
        lag = int(rng.integers(lo, min(hi, lo + 24) + 1))
        if in_domain(N, P, Q, lag):
            return P, Q, lag
    return None


def cases(c):
    rng = c.rng('cases')
    out = []
    for (N, P, Q, lag) in [(64, 15, 15, 30), (64, 8, 4, 10), (32, 3, 3, 12), (32, 4, 4, 8), (32, 5, 5, 10),
                           (40, 2, 2, 4), (40, 1, 1, 2), (38, 4, 1, 5), (64, 4, 6, 12), (64, 6, 2, 20),
                           (64, 1, 5, 5), (64, 2, 6, 6), (64, 5, 12, 12), (48, 3, 7, 7), (40, 1, 2, 2),   # P < Q, lag at its minimum Q
                           (20, 8, 5, 6), (40, 3, 1, 1), (46, 4, 1, 1)]:      # the last four: witnesses of F24a-c
        for cplx in (0, 1):
            out.append({'fn': 'arma_estimate', 'N': N, 'P': P, 'Q': Q, 'lag': lag, 'cplx': cplx,
                        'kind': 'noise', 'directed': True})
    n = 900 if c.tier == 'quick' else 192000
    for i in range(n):
        N = int(rng.integers(16, 257 if i % 4 == 0 else 80))
        pql = draw_pql(rng, N, gen.pick(rng, ['lo', 'hi', None]))
        if pql is None:
            continue
        out.append({'fn': 'arma_estimate', 'N': N, 'P': pql[0], 'Q': pql[1], 'lag': pql[2],
                    'cplx': int(rng.integers(0, 2)), 'kind': gen.pick(rng, KINDS), 'i': i})
        _narrow(out[-1], i)
    for i in range(500 if c.tier == 'quick' else 96000):
        N = int(rng.integers(16, 257 if i % 4 == 0 else 80))
        M = int(rng.integers(2, min(N - 1, 40) + 1))
        Q = int(rng.integers(1, M))
        out.append({'fn': 'ma', 'N': N, 'Q': Q, 'M': M, 'cplx': int(rng.integers(0, 2)),
                    'kind': gen.pick(rng, KINDS), 'i': i})
        _narrow(out[-1], i)
    for i in range(800 if c.tier == 'quick' else 144000):
        N = int(rng.integers(16, 129))
        cls = CLASSES[i % len(CLASSES)]
        d = {'fn': 'class', 'cls': cls, 'N': N, 'cplx': int(rng.integers(0, 2)), 'kind': gen.pick(rng, KINDS),
             'NFFT': gen.pick(rng, [None, 64, 65, 128, 129, 'nextpow2']),
             'fs': gen.pick(rng, [1.0, 1.0, 2.0, 0.05, 1000.0, 44100.0]), 'i': i}
        if cls == 'parma':
            pql = draw_pql(rng, N)
            if pql is None:
                continue
            d.update(P=pql[0], Q=pql[1], lag=pql[2])
        elif cls == 'pma':
            M = int(rng.integers(2, min(N - 1, 30) + 1))
            d.update(Q=int(rng.integers(1, M)), M=M)
        else:
            d.update(P=int(rng.integers(1, min(N // 2, 12) + 1)))
        out.append(d)
    return out


def _narrow(d, i):
    if i % 7 == 2 and not d['cplx']:
        d['variant'] = gen.NARROW[(i // 7) % len(gen.NARROW)]          # wav / ADC samples in a narrow integer type
    gen.layout_variant(d, i)


def make_x(c, d):
    kind = d['kind']
    dd = {'kind': 'ar' if kind == 'arma' else kind, 'N': d['N'], 'cplx': bool(d['cplx']), 'variant': d.get('variant')}
    if kind == 'arma':
        dd.update(p=3, q=2)
    return gen.data(dd, c.rng(d, 'x'))


def run_case(c, d):
    import spectrum
    x = make_x(c, d)
    cplx = bool(d['cplx'])
    feats = {'cplx': cplx}
    if d['fn'] == 'ma':
        c.set_nontrivial(d['Q'] >= 2)
        try:
            spectrum.ma(x, d['Q'], d['M'])
        except Exception as exc:
            c.exception('ma', exc, dict(feats, fn='ma'))
        return
    if d['fn'] == 'arma_estimate':
        P, Q, lag = d['P'], d['Q'], d['lag']
        c.set_nontrivial(P + Q >= 3)
        f2 = dict(feats, fn='arma_estimate', **_branch_feats(P, lag))
        try:
            spectrum.arma_estimate(x, P, Q, lag)
        except Exception as exc:
            c.exception('arma_estimate', exc, f2)
        return
    # classes
    cls = d['cls']
    NFFT = d['NFFT']
    fs = d['fs']
    c.set_nontrivial(True)
    f2 = dict(feats, cls=cls)
    try:
        if cls == 'parma':
            f2.update(_branch_feats(d['P'], d['lag']))
            p = spectrum.parma(x, d['P'], d['Q'], d['lag'], NFFT=NFFT, sampling=fs)
        elif cls == 'pma':
            p = spectrum.pma(x, d['Q'], d['M'], NFFT=NFFT, sampling=fs)
        elif cls == 'pyule':
            p = spectrum.pyule(x, d['P'], NFFT=NFFT, sampling=fs, scale_by_freq=False)
        else:
            p = getattr(spectrum, cls)(x, d['P'], NFFT=NFFT, sampling=fs)
        if d.get('i', 0) % 3 == 1:
            # history: the object was evaluated at another sampling rate first
            _ = p.psd
            fs = fs * 4.0
            p.sampling = fs
        psd = np.asarray(p.psd)
        ar, ma_, rho = p.ar, p.ma, p.rho
        nfft = p.NFFT
    except Exception as exc:
        c.exception(cls, exc, f2)
        return
    if ar is not None and not np.all(np.isfinite(np.asarray(ar))):
        c.fail('class:coefficients-finite', {'ar': np.asarray(ar)[:4]}, f2)
        return
    fin = bool(np.all(np.isfinite(psd)))
    c.require('class:psd-finite', fin, {'psd': psd[:4]}, f2)
    if not fin:
        return
    c.require('class:psd-strictly-positive', bool(np.all(psd > 0)) and np.isrealobj(psd), {'min': float(np.min(psd.real))}, f2)
    A = refs.poly_on_grid(np.concatenate([[1.0], np.asarray(ar)]), nfft) if ar is not None else np.ones(nfft)
    B = refs.poly_on_grid(np.concatenate([[1.0], np.asarray(ma_)]), nfft) if ma_ is not None else np.ones(nfft)
    shape = np.abs(B) ** 2 / np.abs(A) ** 2
    L = len(psd)
    if cplx:
        if not c.require('class:psd-length', L == nfft, {'len': L, 'NFFT': nfft}, f2):
            return
    else:
        if not c.require('class:psd-length', L == refs.onesided_len(nfft), {'len': L, 'NFFT': nfft}, f2):
            return
        shape = shape[:L]
    ratio = psd / shape
    const = float(np.median(ratio))
    # evaluating |B|^2/|A|^2 next to a zero of A or B amplifies rounding by sum|a|/|A(f)| resp. sum|b|/|B(f)| (the same
    # per-bin allowance as the arma2psd contract of C08: 1e-9 + 1e-13 of those factors)
    sa = float(np.sum(np.abs(np.asarray(ar)))) + 1.0 if ar is not None else 1.0
    sb = float(np.sum(np.abs(np.asarray(ma_)))) + 1.0 if ma_ is not None else 1.0
    with np.errstate(divide='ignore', invalid='ignore'):
        allowed = 1e-9 + 1e-13 * (sa / np.abs(A) + sb / np.abs(B))[:L]
        dev = np.abs(ratio / const - 1.0) / allowed
    c.compare('class:psd-proportional-to-|B|^2/|A|^2', dev, np.zeros(L), 1.0, f2, scale=1.0,
              detail={'NFFT': nfft, 'const': const, 'max_allowed': float(np.max(allowed))})
    if rho is not None:
        want = float(np.real(rho)) / fs
        if cplx:
            c.compare('class:constant-is-rho/sampling', const, want, 1e-9, f2, scale=abs(want))
        else:
            good = min(abs(const - want), abs(const - 2 * want)) <= 1e-9 * abs(want)
            c.require('class:constant-is-rho/sampling(x1|x2 one-sided)', good, {'const': const, 'rho/fs': want}, f2)


def finish(c):
    install.require_evaluated(c, ['arma.ma', 'arma.arma_estimate'])
