"""C09 — correlation estimates match their definition and are consistent.

Monitors: icontract postconditions on CORRELATION, xcorr and corrmtx (they
judge every call, including the internal ones made by the estimators), plus a
paired check of the Gram identity and of the two correlation back ends.
"""
import numpy as np

from .. import install, refs, gen, reach
from ..install import ctx as _ctx

REPO_TESTS_UNDER_CONTRACTS = True
RULE = ('cases = (function, len(x), len(y)|auto, real/complex mix, data kind, maxlags, norm | '
        'data-matrix method, m); exhaustive over small lengths, sampled beyond; a case is '
        'non-trivial when N >= 2 and (maxlags >= 1 or m >= 1); distinct = distinct descriptor')
ASSUMPTIONS = ['numpy dot products as the reference for the lag sums',
               'coeff normalisation judged for autocorrelation only (statement)',
               'xcorr maxlags restricted to [0, N-1] (statement)']
REQUIRED_ANCHORS = ('CORRELATION', 'xcorr', 'corrmtx')
TOL = 1e-10


def _is1d(a):
    try:
        return np.asarray(a).ndim == 1 and len(a) >= 1
    except Exception:
        return False


def _fl(a):
    """The monitor's own arithmetic is done in floating point whatever the storage type of the samples."""
    a = np.asarray(a)
    return a.astype(float) if a.dtype.kind in 'iub' else a


def post_CORRELATION(x, y, maxlags, norm, result):
    c = _ctx()
    if not _is1d(x) or (y is not None and not _is1d(y)):
        c.discard('CORRELATION:not-1d')
        return
    xa = _fl(x)
    auto = y is None or (len(y) == len(xa) and np.array_equal(np.asarray(y), xa))
    ya = xa if y is None else _fl(y)
    N = max(len(xa), len(ya))
    ml = N - 1 if maxlags is None else int(maxlags)
    if ml < 0 or ml > N - 1:
        c.discard('CORRELATION:maxlags-out-of-domain')
        return
    feats = {'fn': 'CORRELATION', 'norm': str(norm), 'auto': bool(auto),
             'unequal': len(xa) != len(ya), 'dtype': np.asarray(x).dtype.name}
    if norm == 'coeff':
        if not auto:
            c.discard('coeff-crosscorrelation-not-in-statement')
            return
        if not np.any(xa):
            c.discard('coeff-all-zero')
            return
    ref = refs.corr_def(xa, ya, ml, norm)
    sc = max(float(np.max(np.abs(ref))),
             float(np.linalg.norm(xa) * np.linalg.norm(ya)) / N, 1e-300)
    got = np.asarray(result)
    if np.isrealobj(xa) and np.isrealobj(ya) and not np.isrealobj(got):
        c.count('observation:CORRELATION-complex-dtype-for-real-input')      # values are judged below; dtype is not in the statement
    c.compare('CORRELATION:definition', got, ref if np.iscomplexobj(got) else ref.real, TOL,
              feats, scale=sc, detail={'N': N, 'maxlags': ml})
    if auto and norm == 'biased' and got.shape == ref.shape:
        r0 = float(np.mean(np.abs(xa) ** 2))
        c.compare('biased:r0-is-mean-power', got[0], r0, TOL, feats, scale=max(r0, 1e-300))
        c.require('biased:r0-dominates', bool(np.all(np.abs(got) <= abs(got[0]) * (1 + 1e-12) + 1e-300)),
                  {'r': got[:6]}, feats)
        if 1 <= ml <= 48 and np.all(np.isfinite(got)):
            lam = np.linalg.eigvalsh(refs.herm_toeplitz(got))
            c.require('biased:toeplitz-psd', bool(lam[0] >= -1e-10 * max(abs(got[0]), 1e-300)),
                      {'lambda_min': float(lam[0]), 'r0': got[0]}, feats)
    if auto and norm == 'coeff' and got.shape == ref.shape:
        c.compare('coeff:lag0-is-1', got[0], 1.0, TOL, feats, scale=1.0)


def post_xcorr(x, y, maxlags, norm, result):
    c = _ctx()
    if not _is1d(x) or (y is not None and not _is1d(y)):
        c.discard('xcorr:not-1d')
        return
    xa = _fl(x)
    auto = y is None or (len(y) == len(xa) and np.array_equal(np.asarray(y), xa))
    ya = xa if y is None else _fl(y)
    N = max(len(xa), len(ya))
    ml = N - 1 if maxlags is None else int(maxlags)
    if ml < 0 or ml > N - 1:
        c.discard('xcorr:maxlags-out-of-domain')
        return
    feats = {'fn': 'xcorr', 'norm': str(norm), 'auto': bool(auto), 'unequal': len(xa) != len(ya),
             'dtype': np.asarray(x).dtype.name}
    try:
        res, lags = result
    except Exception:
        c.fail('xcorr:returns-pair', {'type': str(type(result))}, feats)
        return
    c.compare('xcorr:lags', np.asarray(lags), np.arange(-ml, ml + 1), 0.0, feats, scale=1.0)
    if norm == 'coeff':
        if not auto:
            c.discard('coeff-crosscorrelation-not-in-statement')
            return
        if not np.any(xa) or not np.any(ya):
            c.discard('coeff-all-zero')
            return
        xp, yp = refs.pad_to(xa, N), refs.pad_to(ya, N)
        den_pos = N * np.sqrt(np.mean(np.abs(xp) ** 2) * np.mean(np.abs(yp) ** 2))
        pos = refs.raw_corr(xa, ya, ml) / den_pos
        neg = np.conj(refs.raw_corr(ya, xa, ml)) / den_pos
    else:
        nrm = norm if norm in ('biased', 'unbiased') else None
        pos = refs.corr_def(xa, ya, ml, nrm)
        neg = np.conj(refs.corr_def(ya, xa, ml, nrm))
    ref = np.concatenate([neg[:0:-1], pos])
    got = np.asarray(res)
    sc = max(float(np.max(np.abs(ref))),
             float(np.linalg.norm(xa) * np.linalg.norm(ya)) / N, 1e-300)
    c.compare('xcorr:definition', got, ref if np.iscomplexobj(got) else ref.real, TOL, feats,
              scale=sc, detail={'N': N, 'maxlags': ml})


def post_corrmtx(x_input, m, method, result):
    c = _ctx()
    if not _is1d(x_input):
        c.discard('corrmtx:not-1d')
        return
    x = _fl(x_input)
    N = len(x)
    if x.dtype.kind == 'c' and x.dtype != np.complex128:
        c.discard('corrmtx:single-precision-complex')
        return
    if not (1 <= m <= N - 1):
        c.discard('corrmtx:m-out-of-domain')
        return
    feats = {'fn': 'corrmtx', 'method': str(method), 'cplx': bool(np.iscomplexobj(x))}
    ref = refs.data_matrix(x, m, method)
    got = np.asarray(result)
    sc = max(float(np.max(np.abs(x))), 1e-300)
    c.compare('corrmtx:rows', got, ref if np.iscomplexobj(got) else ref.real, 1e-14, feats,
              scale=sc, detail={'N': N, 'm': m})


def setup(c):
    import spectrum
    reach.watch(c, {'CORRELATION': spectrum.correlation.CORRELATION,
                    'xcorr': spectrum.correlation.xcorr, 'corrmtx': spectrum.linalg.corrmtx})
    install.contract('spectrum.correlation', 'CORRELATION', post_CORRELATION)
    install.contract('spectrum.correlation', 'xcorr', post_xcorr)
    install.contract('spectrum.linalg', 'corrmtx', post_corrmtx)
    reach.cover(c, {'CORRELATION': install.original('spectrum.correlation', 'CORRELATION'),
                    'xcorr': install.original('spectrum.correlation', 'xcorr'),
                    'corrmtx': install.original('spectrum.linalg', 'corrmtx')})


NORMS = ['biased', 'unbiased', 'coeff', None]
METHODS = ['autocorrelation', 'prewindowed', 'postwindowed', 'covariance', 'modified']
KINDS = ['noise', 'tones', 'int', 'const', 'trend', 'dyn', 'alt', 'impulse', 'sparse']


def cases(c):
    rng = c.rng('cases')
    out = []
    # directed corners
    for fn in ('CORRELATION', 'xcorr'):
        for (N, M) in [(1, None), (1, 11), (11, 1), (2, 2), (5, 10), (10, 5), (7, None), (16, 3)]:
            for norm in NORMS:
                for cx, cy in [(0, 0), (1, 1), (0, 1), (1, 0)]:
                    if M is None and cx != cy:
                        continue
                    NN = max(N, M or N)
                    for ml in [None] + sorted(set([0, NN - 1, NN // 2])):
                        out.append({'fn': fn, 'N': N, 'M': M, 'cx': cx, 'cy': cy, 'kind': 'noise',
                                    'norm': norm, 'maxlags': ml, 'list': False, 'directed': True})
    small = 9 if c.tier == 'quick' else 16
    for fn in ('CORRELATION', 'xcorr'):
        for N in range(1, small + 1):
            for M in [None] + list(range(1, small + 1)):
                NN = max(N, M or N)
                cx, cy = int(rng.integers(0, 2)), int(rng.integers(0, 2))
                if M is None:
                    cy = cx
                out.append({'fn': fn, 'N': N, 'M': M, 'cx': cx, 'cy': cy,
                            'kind': gen.pick(rng, KINDS), 'norm': gen.pick(rng, NORMS),
                            'maxlags': gen.pick(rng, [None, 0, NN - 1, int(rng.integers(0, NN))]),
                            'list': bool(rng.integers(0, 2))})
    nrand = 2500 if c.tier == 'quick' else 288000
    for i in range(nrand):
        N = int(rng.integers(2, 200 if i % 4 == 0 else 48))
        M = gen.pick(rng, [None, None, N, int(rng.integers(1, 200 if i % 4 == 0 else 48))])
        NN = max(N, M or N)
        cx, cy = int(rng.integers(0, 2)), int(rng.integers(0, 2))
        if M is None:
            cy = cx
        out.append({'fn': gen.pick(rng, ['CORRELATION', 'xcorr']), 'N': N, 'M': M, 'cx': cx, 'cy': cy,
                    'kind': gen.pick(rng, KINDS), 'norm': gen.pick(rng, NORMS),
                    'maxlags': gen.pick(rng, [None, 0, NN - 1, int(rng.integers(0, NN))]),
                    'list': bool(rng.integers(0, 2)), 'i': i})
        if i % 6 == 1 and not cx and not cy:
            out[-1]['variant'] = (gen.NARROW + ('bool',))[(i // 6) % (len(gen.NARROW) + 1)]      # wav / ADC samples in a narrow integer type, or 0/1 flags
        gen.layout_variant(out[-1], i)
    # long records (both back ends switch algorithms with the length in some implementations)
    for i in range(24 if c.tier == 'quick' else 2400):
        N = int(rng.integers(257, 700))
        out.append({'fn': gen.pick(rng, ['xcorr', 'xcorr', 'CORRELATION']), 'N': N, 'M': gen.pick(rng, [None, None, N, N - 40]),
                    'cx': int(i % 3 != 0), 'cy': int(i % 3 != 0), 'kind': gen.pick(rng, ['noise', 'tones', 'ar']),
                    'norm': gen.pick(rng, NORMS), 'maxlags': int(gen.pick(rng, [0, 3, 12, 40])), 'list': False, 'i': i, 'long': True})
    # data matrices
    for N in range(2, (10 if c.tier == 'quick' else 20)):
        for m in range(1, N):
            for method in METHODS:
                out.append({'fn': 'corrmtx', 'N': N, 'm': m, 'method': method,
                            'cx': int(rng.integers(0, 2)), 'kind': gen.pick(rng, KINDS),
                            'list': bool(rng.integers(0, 4) == 0)})
    for i in range(600 if c.tier == 'quick' else 72000):
        N = int(rng.integers(3, 128))
        out.append({'fn': 'corrmtx', 'N': N, 'm': int(rng.integers(1, N)),
                    'method': gen.pick(rng, METHODS), 'cx': int(rng.integers(0, 2)),
                    'kind': gen.pick(rng, KINDS), 'list': False, 'i': i})
        if i % 6 == 1 and not out[-1]['cx']:
            out[-1]['variant'] = gen.NARROW[(i // 6) % len(gen.NARROW)]
    return out


def _mk(c, d, which, N, cplx):
    x = gen.data({'kind': d['kind'], 'N': N, 'cplx': bool(cplx), 'variant': d.get('variant')}, c.rng(d, which))
    if d.get('list'):
        x = list(x)
    return x


def run_case(c, d):
    import spectrum
    if d['fn'] == 'corrmtx':
        x = _mk(c, d, 'x', d['N'], d['cx'])
        c.set_nontrivial(True)
        try:
            C = spectrum.corrmtx(x, d['m'], d['method'])
        except Exception as exc:
            c.exception('corrmtx', exc, {'fn': 'corrmtx', 'method': d['method']})
            return
        if d['method'] == 'autocorrelation':
            # Gram identity against the library's own biased autocorrelation
            xa = np.asarray(x)
            try:
                r = spectrum.CORRELATION(x, maxlags=d['m'], norm='biased')
            except Exception as exc:
                c.exception('CORRELATION', exc, {'fn': 'CORRELATION', 'norm': 'biased'})
                return
            G = np.conj(np.asarray(C).T) @ np.asarray(C)
            # (C^H C)[i,j] = sum_n conj(x[n-i]) x[n-j] = N * r[i-j]  with r[k]=sum x[n+k]conj(x[n])/N
            T = len(xa) * refs.herm_toeplitz(np.asarray(r))
            c.compare('gram-identity', G, T if np.iscomplexobj(G) else T.real, 1e-10,
                      {'fn': 'corrmtx', 'method': 'autocorrelation', 'cplx': bool(d['cx'])},
                      scale=max(float(np.max(np.abs(T))), 1e-300))
        return
    fn = getattr(spectrum, d['fn'])
    x = _mk(c, d, 'x', d['N'], d['cx'])
    y = None if d['M'] is None else _mk(c, d, 'y', d['M'], d['cy'])
    NN = max(d['N'], d['M'] or d['N'])
    c.set_nontrivial(NN >= 2 and (d['maxlags'] is None or d['maxlags'] >= 1))
    feats = {'fn': d['fn'], 'norm': str(d['norm']), 'auto': y is None,
             'unequal': d['M'] is not None and d['M'] != d['N']}
    if d['norm'] == 'coeff' and (not np.any(np.asarray(x)) or (y is not None and not np.any(np.asarray(y)))):
        c.discard('coeff-all-zero')
        return
    x0 = np.array(x, copy=True)
    y0 = None if y is None else np.array(y, copy=True)
    try:
        res = fn(x, y, maxlags=d['maxlags'], norm=d['norm'])
    except Exception as exc:
        c.exception(d['fn'], exc, feats)
        return
    # the caller's sequences are still the caller's sequences (same length, same samples)
    same = np.shape(x) == x0.shape and np.array_equal(np.asarray(x), x0) and \
        (y is None or (np.shape(y) == y0.shape and np.array_equal(np.asarray(y), y0)))
    c.require('%s:inputs-not-modified' % d['fn'], bool(same), {'len_x_before': int(x0.shape[0]), 'len_x_after': int(np.shape(x)[0])}, feats)
    # a view of a longer record is an ordinary input too
    if not d.get('list') and d['N'] >= 2 and d.get('i', 0) % 3 == 0:
        big = np.concatenate([x0, x0])
        try:
            res_v = fn(big[:d['N']], y0, maxlags=d['maxlags'], norm=d['norm'])
            a = np.asarray(res_v[0] if d['fn'] == 'xcorr' else res_v)
            b = np.asarray(res[0] if d['fn'] == 'xcorr' else res)
            c.compare('%s:same-result-for-a-view-of-a-longer-array' % d['fn'], a, b, 0.0, feats, scale=1.0)
        except Exception as exc:
            c.exception(d['fn'], exc, dict(feats, input='view'))
    # paired: the two back ends agree on non-negative lags (same definition)
    if d['fn'] == 'xcorr' and (d['norm'] != 'coeff' or y is None):
        ml = NN - 1 if d['maxlags'] is None else d['maxlags']
        try:
            r2 = spectrum.CORRELATION(x, y, maxlags=ml, norm=d['norm'])
        except Exception as exc:
            c.exception('CORRELATION', exc, dict(feats, fn='CORRELATION'))
            return
        pos = np.asarray(res[0])[ml:]
        # rounding of a lag sum is relative to the energy of its terms (|x||y|), not to a sum that may cancel
        xf, yf = np.asarray(x, dtype=complex), np.asarray(x if y is None else y, dtype=complex)
        sc = max(float(np.max(np.abs(r2))), float(np.linalg.norm(xf) * np.linalg.norm(yf)) / NN if d['norm'] != 'coeff' else 0.0, 1e-300)
        c.compare('xcorr-vs-CORRELATION', pos, np.asarray(r2), 1e-9, feats, scale=sc)


def finish(c):
    install.require_evaluated(c, ['correlation.CORRELATION', 'correlation.xcorr', 'linalg.corrmtx'])
