"""pytest plugin: the repository's own test-suite as a workload under the kind-A
contracts of one property (DESIGN section 3, source 3).

  RV_PROP=C09 RV_PARTIAL=/path/out.json python -m pytest <repo>/test -p rv.pytest_contracts

The contracts are the same objects the checks install; they record into a Ctx
whose partial result is written at session end and merged by the caller.  A
contract that fires here is either too strict or a defect the tests do not
assert — the witness is read before anything is relaxed (DESIGN section 8).
"""
import os

_state = {}


def pytest_configure(config):
    from . import bootstrap, install
    from .harness import Ctx
    from .run import load_prop
    prop = os.environ.get('RV_PROP')
    if not prop:
        return
    bootstrap.ensure_deps()
    bootstrap.import_spectrum()
    mod = load_prop(prop)
    ctx = Ctx(prop, os.environ.get('VERIF_TIER', 'thorough'), int(os.environ.get('VERIF_SEED', '0') or 0))
    if getattr(mod, 'NEEDS_NATIVE', False):
        bootstrap.rebind_native('plain')
    install.CURRENT['ctx'] = ctx
    mod.setup(ctx)
    ctx.begin_case({'workload': 'repository-test-suite', 'property': prop}, nontrivial=True)
    _state.update(ctx=ctx, mod=mod)


def pytest_runtest_setup(item):
    ctx = _state.get('ctx')
    if ctx is not None:
        ctx._case = {'workload': 'repository-test-suite', 'test': item.nodeid}


def pytest_sessionfinish(session, exitstatus):
    ctx = _state.get('ctx')
    if ctx is None:
        return
    from . import reach, install
    from .harness import jdump
    ctx._case = {'workload': 'repository-test-suite'}
    ctx.end_case()
    reach.report(ctx, ())
    ctx.extra['repo_tests_exitstatus'] = int(exitstatus)
    out = os.environ.get('RV_PARTIAL')
    if out:
        with open(out, 'w') as f:
            f.write(jdump(ctx.partial()))
