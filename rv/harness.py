"""Recording, verdicts, evidence and replay for the runtime monitors.

A *case* is a JSON-able descriptor (generator tag + parameters, never random
values); the data of a case is regenerated from (seed, descriptor).  Monitors
report every deciding comparison through Ctx.ok / Ctx.compare / Ctx.fail.
"""
import hashlib
import json
import math
import os
import signal
import sys
import time
import traceback
import zlib
from collections import Counter, OrderedDict

import numpy as np

from . import bootstrap, findings

VERIF = bootstrap.VERIF
MAX_SIGNATURES = 40


def jdefault(o):
    if isinstance(o, (np.integer,)):
        return int(o)
    if isinstance(o, (np.floating,)):
        return float(o)
    if isinstance(o, (np.bool_,)):
        return bool(o)
    if isinstance(o, complex) or isinstance(o, np.complexfloating):
        return {'re': float(o.real), 'im': float(o.imag)}
    if isinstance(o, np.ndarray):
        if o.size > 64:
            return {'array_shape': list(o.shape), 'head': jdefault(o.ravel()[:8])}
        if np.iscomplexobj(o):
            return [jdefault(complex(v)) for v in o.ravel()]
        return [float(v) for v in o.ravel()]
    if isinstance(o, (set, frozenset, tuple)):
        return list(o)
    return repr(o)


def jdump(o, **kw):
    return json.dumps(o, default=jdefault, sort_keys=True, **kw)


def dhash(desc):
    return hashlib.sha1(jdump(desc).encode()).hexdigest()[:12]


class Inconclusive(Exception):
    pass


class Ctx(object):
    def __init__(self, prop, tier, seed, shard=0, nshards=1, replay=False):
        self.prop = prop
        self.tier = tier
        self.seed = int(seed)
        self.shard = shard
        self.nshards = nshards
        self.replay = replay
        self.t0 = time.time()
        self.evaluations = 0
        self.distinct = set()
        self.cases_run = 0
        self.samples = []
        self.counters = Counter()
        self.discarded = Counter()
        self.maxerr = {}
        self.checks = Counter()          # check name -> deciding comparisons
        self.violations = OrderedDict()  # signature -> record
        self.known = OrderedDict()       # finding key -> record
        self.inconclusive = []
        self.extra = {}
        self.rule = ''
        self.assumptions = []
        self._case = None
        self._case_evals = 0
        self._case_nontrivial = False
        self.soft_budget = None
        self.truncated = False
        self.casefile = None
        self._casefd = None

    # ------------------------------------------------------------ generation
    def rng(self, *key):
        h = zlib.crc32(jdump(key).encode())
        return np.random.default_rng([self.seed, h])

    def mine(self, idx):
        return (idx % self.nshards) == self.shard

    def out_of_budget(self):
        if self.soft_budget is None:
            return False
        if time.time() - self.t0 > self.soft_budget:
            self.truncated = True
            return True
        return False

    # ------------------------------------------------------------ cases
    def begin_case(self, desc, nontrivial=True):
        if self.casefile is not None:
            # breadcrumb for the supervising parent, should the code under test kill this process
            try:
                if self._casefd is None:
                    self._casefd = os.open(self.casefile, os.O_WRONLY | os.O_CREAT | os.O_TRUNC)
                data = jdump(desc).encode() + b' ' * 64
                os.pwrite(self._casefd, data, 0)
                os.ftruncate(self._casefd, len(data))
            except OSError:
                pass
        self._case = desc
        self._case_evals = 0
        self._case_nontrivial = nontrivial
        self.cases_run += 1

    def end_case(self):
        if self._case is not None and self._case_evals > 0:
            if self._case_nontrivial:
                self.distinct.add(dhash(self._case))
            if len(self.samples) < 6 or (self.cases_run % 997 == 0 and len(self.samples) < 12):
                self.samples.append(self._case)
        self._case = None

    def set_nontrivial(self, flag):
        self._case_nontrivial = bool(flag)

    # ------------------------------------------------------------ recording
    def count(self, name, n=1):
        self.counters[name] += n

    def discard(self, guard, n=1):
        self.discarded[guard] += n

    def ok(self, check):
        self.evaluations += 1
        self._case_evals += 1
        self.checks[check] += 1

    def err(self, check, value):
        if value is None:
            return
        try:
            v = float(value)
        except Exception:
            return
        if math.isnan(v):
            return
        if v > self.maxerr.get(check, 0.0):
            self.maxerr[check] = v

    def compare(self, check, got, ref, tol, features=None, scale=None, detail=None,
                charact=None, floor=0.0, pointwise=None):
        """max|got-ref| <= tol * max(scale or |ref|_inf, floor, tiny). Returns bool.
        pointwise=f: each entry is judged relative to max(|ref_i|, f*|ref|_inf) instead (spectra
        spanning many decades: low-power bins count, rounding of the largest values does not)."""
        try:
            g = np.asarray(got)
            r = np.asarray(ref)
            if g.shape != r.shape:
                return self.fail(check, dict(detail or {}, why='shape', got_shape=list(g.shape),
                                             ref_shape=list(r.shape)), features, charact)
            if g.size == 0:
                self.ok(check)
                return True
            if not (np.all(np.isfinite(g)) and np.all(np.isfinite(r))):
                same = np.array_equal(np.isnan(g), np.isnan(r)) and \
                    np.array_equal(np.isinf(g), np.isinf(r))
                if not same or not np.all(np.isfinite(r)):
                    return self.fail(check, dict(detail or {}, why='non-finite',
                                                 got_head=g.ravel()[:6], ref_head=r.ravel()[:6]),
                                     features, charact)
            s = scale if scale is not None else float(np.max(np.abs(r)))
            s = max(s, floor, 1e-300)
            if pointwise is not None:
                den = np.maximum(np.abs(r), pointwise * s)
                e = float(np.max(np.abs(g - r) / den))
            else:
                e = float(np.max(np.abs(g - r))) / s
        except Exception as exc:  # malformed output is a failure of the code under test
            return self.fail(check, dict(detail or {}, why='uncomparable', exc=repr(exc)),
                             features, charact)
        self.err(check, e)
        if e <= tol:
            self.ok(check)
            return True
        idx = int(np.argmax(np.abs(g - r) / np.maximum(np.abs(r), pointwise * s))) if pointwise is not None \
            else int(np.argmax(np.abs(g - r)))
        d = dict(detail or {}, rel_err=e, tol=tol, worst_index=idx,
                 got=g.ravel()[idx], ref=r.ravel()[idx], got_head=g.ravel()[:6], ref_head=r.ravel()[:6])
        return self.fail(check, d, features, charact)

    def require(self, check, cond, detail=None, features=None, charact=None):
        if cond:
            self.ok(check)
            return True
        return self.fail(check, detail or {}, features, charact)

    def fail(self, check, detail=None, features=None, charact=None):
        self.evaluations += 1
        self._case_evals += 1
        self.checks[check] += 1
        feats = dict(features or {})
        feats['check'] = check
        key = findings.classify(self.prop, feats, charact)
        rec = {'check': check, 'features': feats, 'case': self._case, 'detail': detail or {},
               'seed': self.seed}
        if key is not None:
            k = self.known.setdefault(key, {'count': 0, 'first': rec})
            k['count'] += 1
            return False
        sig = check + '|' + jdump({k: v for k, v in feats.items() if k != 'check'})
        v = self.violations.get(sig)
        if v is None:
            if len(self.violations) < MAX_SIGNATURES:
                self.violations[sig] = {'count': 1, 'first': rec}
            else:
                self.counters['violations_beyond_signature_cap'] += 1
        else:
            v['count'] += 1
        return False

    def exception(self, check, exc, features=None, expected=(), charact=None):
        """An exception raised by the code under test on an in-domain input."""
        if expected and isinstance(exc, expected):
            self.discard('expected:%s' % type(exc).__name__)
            return
        tb = traceback.extract_tb(exc.__traceback__)
        where = ''
        for fr in reversed(tb):
            if os.sep + 'spectrum' + os.sep in fr.filename:
                where = '%s:%s' % (os.path.basename(fr.filename), fr.name)
                break
        feats = dict(features or {})
        feats['exception'] = type(exc).__name__
        feats['where'] = where
        self.fail(check + ':raised', {'exception': repr(exc)[:300]}, feats, charact)

    def flag_inconclusive(self, reason):
        if reason not in self.inconclusive:
            self.inconclusive.append(reason)

    # ------------------------------------------------------------ merge / output
    def partial(self):
        return {
            'evaluations': self.evaluations, 'distinct': sorted(self.distinct),
            'cases_run': self.cases_run, 'samples': self.samples,
            'counters': dict(self.counters), 'discarded': dict(self.discarded),
            'maxerr': self.maxerr, 'checks': dict(self.checks),
            'violations': self.violations, 'known': self.known,
            'inconclusive': self.inconclusive, 'extra': self.extra, 'rule': self.rule,
            'assumptions': self.assumptions, 'truncated': self.truncated,
        }

    def absorb(self, p):
        self.evaluations += p['evaluations']
        self.distinct.update(p['distinct'])
        self.cases_run += p['cases_run']
        for s in p['samples']:
            if len(self.samples) < 12:
                self.samples.append(s)
        self.counters.update(p['counters'])
        self.discarded.update(p['discarded'])
        self.checks.update(p['checks'])
        for k, v in p['maxerr'].items():
            self.err(k, v)
        for sig, v in p['violations'].items():
            if sig in self.violations:
                self.violations[sig]['count'] += v['count']
            elif len(self.violations) < MAX_SIGNATURES:
                self.violations[sig] = v
        for key, v in p['known'].items():
            if key in self.known:
                self.known[key]['count'] += v['count']
            else:
                self.known[key] = v
        for r in p['inconclusive']:
            self.flag_inconclusive(r)
        for k, v in p['extra'].items():
            if k == 'line_coverage':
                continue
            if isinstance(v, dict) and isinstance(self.extra.get(k), dict):
                for kk, vv in v.items():
                    if isinstance(vv, (int, float)) and isinstance(self.extra[k].get(kk), (int, float)):
                        self.extra[k][kk] += vv
                    else:
                        self.extra[k].setdefault(kk, vv)
            elif isinstance(v, list) and isinstance(self.extra.get(k), list):
                for it in v:
                    if it not in self.extra[k]:
                        self.extra[k].append(it)
            else:
                self.extra.setdefault(k, v)
        lc = p['extra'].get('line_coverage')
        if isinstance(lc, dict):
            mine = self.extra.setdefault('line_coverage', {})
            for lab, v in lc.items():
                m = mine.get(lab)
                if m is None or m is v:
                    mine[lab] = dict(v)
                else:
                    ex = sorted(set(m.get('executed', [])) | set(v.get('executed', [])))
                    nv = sorted(set(m.get('never_executed', [])) & set(v.get('never_executed', [])))
                    mine[lab] = {'statement_lines': v.get('statement_lines'), 'executed': ex, 'never_executed': nv}
        self.rule = self.rule or p['rule']
        for a in p['assumptions']:
            if a not in self.assumptions:
                self.assumptions.append(a)
        self.truncated = self.truncated or p['truncated']

    def finish(self):
        """Write replays + evidence, print the verdict lines, return the exit code."""
        wall = time.time() - self.t0
        lines = []
        if self.evaluations == 0:
            self.flag_inconclusive('no deciding comparison was reached')
        if len(self.distinct) < 2 and not self.replay:
            self.flag_inconclusive('fewer than two distinct non-trivial cases were evaluated')
        # replays
        rdir = os.path.join(VERIF, 'replays', self.prop)
        if not self.replay and os.path.isdir(rdir):
            for fn in os.listdir(rdir):       # replays of earlier runs of this property are stale
                try:
                    os.unlink(os.path.join(rdir, fn))
                except OSError:
                    pass
        for sig, v in self.violations.items():
            os.makedirs(rdir, exist_ok=True)
            path = os.path.join(rdir, hashlib.sha1(sig.encode()).hexdigest()[:16] + '.json')
            with open(path, 'w') as f:
                f.write(jdump({'property': self.prop, 'signature': sig, 'count': v['count'],
                               'record': v['first'], 'tier': self.tier}, indent=1))
            v['replay'] = path
            lines.append('VIOLATION property=%s replay=%s' % (self.prop, path))
            lines.append('  # %s x%d: %s' % (v['first']['check'], v['count'],
                                             jdump(v['first']['detail'])[:300]))
        for key, v in self.known.items():
            lines.append('KNOWN-FINDING: property=%s %s: %s (n=%d)' %
                         (self.prop, key, findings.what_fails(key), v['count']))
        verdict = 'held'
        code = 0
        if self.violations:
            verdict, code = 'violated', 1
        elif self.inconclusive:
            verdict, code = 'inconclusive', 2
            for r in self.inconclusive:
                lines.append('INCONCLUSIVE property=%s reason=%s' % (self.prop, r))
        cov = {
            'evaluations': int(self.evaluations),
            'distinct_nontrivial': int(len(self.distinct)),
            'rule': self.rule,
            'samples': self.samples[:12] if self.samples else [],
            'cases_run': int(self.cases_run),
            'checks': dict(self.checks),
            'max_rel_err_observed': self.maxerr,
            'discarded_by_guard': dict(self.discarded),
            'counters': dict(self.counters),
            'known_findings_hit': {k: {'count': v['count'], 'sample': v['first']['case'],
                                       'features': v['first']['features']}
                                   for k, v in self.known.items()},
            'violation_signatures': [{'signature': s, 'count': v['count'], 'replay': v.get('replay')}
                                     for s, v in self.violations.items()],
            'verdict': verdict,
            'inconclusive_reasons': self.inconclusive,
            'truncated_by_soft_budget': self.truncated,
            'shards': self.nshards,
            'tree': bootstrap.SRC,
        }
        cov.update(self.extra)
        ev = {
            'property_id': self.prop, 'tier': self.tier, 'seed': self.seed,
            'level': 'exploration', 'coverage': cov, 'assumptions': self.assumptions,
            'wall_s': round(wall, 3), 'violations': int(len(self.violations)),
        }
        if not self.replay:
            os.makedirs(os.path.join(VERIF, 'evidence'), exist_ok=True)
            with open(os.path.join(VERIF, 'evidence', self.prop + '.json'), 'w') as f:
                f.write(jdump(ev, indent=1) + '\n')
        for l in lines:
            print(l)
        print('%s %s tier=%s seed=%d verdict=%s evaluations=%d distinct_nontrivial=%d cases=%d '
              'known=%d wall=%.1fs' % ('RESULT', self.prop, self.tier, self.seed, verdict,
                                       self.evaluations, len(self.distinct), self.cases_run,
                                       len(self.known), wall))
        sys.stdout.flush()
        return code


def install_watchdog(ctx, seconds):
    def onalarm(signum, frame):
        ctx.flag_inconclusive('wall-clock watchdog fired after %ds' % seconds)
        code = ctx.finish()
        os._exit(2 if code == 0 else code)
    signal.signal(signal.SIGALRM, onalarm)
    signal.alarm(int(seconds))
