"""Which array / list arguments of the anchored functions are checked for caller-visible modification
(install.frozen): what the caller passed in is still what the caller holds after the call."""
from . import install

TARGETS = {
    'C01': [('periodogram', 'speriodogram', ['x']), ('correlog', 'CORRELOGRAMPSD', ['X', 'Y'])],
    'C09': [('correlation', 'CORRELATION', ['x', 'y']), ('correlation', 'xcorr', ['x', 'y']), ('linalg', 'corrmtx', ['x_input'])],
    'C10': [('levinson', 'LEVINSON', ['r']), ('toeplitz', 'TOEPLITZ', ['TC', 'TR', 'Z']), ('toeplitz', 'HERMTOEP', ['T', 'Z'])],
    'C11': [('linear_prediction', n, [a]) for n, a in (('ac2poly', 'data'), ('poly2ac', 'poly'), ('ac2rc', 'data'),
                                                          ('rc2ac', 'k'), ('rc2poly', 'kr'), ('poly2rc', 'a'), ('rc2lar', 'k'),
                                                          ('lar2rc', 'g'), ('rc2is', 'k'), ('is2rc', 'inv_sin'),
                                                          ('poly2lsf', 'a'), ('lsf2poly', 'lsf'))] +
           [('levinson', 'levup', ['acur']), ('levinson', 'levdown', ['anxt']), ('levinson', 'rlevinson', ['a'])],
    'C12': [('yulewalker', 'aryule', ['X']), ('lpc', 'lpc', ['x'])],
    'C13': [('burg', 'arburg', ['X'])],
    'C14': [('covar', 'arcovar', ['x']), ('modcovar', 'modcovar', ['x']), ('covar', 'arcovar_marple', ['x']),
            ('modcovar', 'modcovar_marple', ['X'])],
    'C15': [('arma', 'arma_estimate', ['X']), ('arma', 'ma', ['X']), ('arma', 'arma2psd', ['A', 'B'])],
    'C16': [('minvar', 'minvar', ['X'])],
    'C17': [('eigenfre', 'eigen', ['X'])],
    'C18': [('mtm', 'dpss', [])],
    'C19': [('mtm', 'pmtm', ['x', 'e', 'v']), ('mtm', 'dpss', [])],
    'C08': [('arma', 'arma2psd', ['A', 'B'])],
}


def install_for(ctx, prop):
    for modname, attr, args in TARGETS.get(prop, []):
        try:
            install.frozen('spectrum.' + modname, attr, args)
        except Exception as exc:
            ctx.count('frozen-monitor-not-installed:%s.%s:%s' % (modname, attr, type(exc).__name__))
